(** C03 - Handshake follows RFB 3.3/3.7/3.8 and never proceeds past failed security. *)
From Coq Require Import ZArith List Bool Lia.
From VD Require Import Base.Bytes Base.Text Gen.Tables Model.Engine Model.Rfb Proofs.HandshakeP.
Import ListNotations.
Open Scope Z_scope.

(** Version: for all 10^6 numeric banners at or above 3.3 the client answers 3.8 if the server
    is >= 3.8, else 3.7 if it is >= 3.7, else 3.3 (the highest version it supports that does not
    exceed the server's, capped at 3.8), writes exactly that banner, and waits for the security
    message of that version. *)
Theorem C03_version : forall s maj min,
  0 <= maj <= 999 -> 0 <= min <= 999 -> le_ver (3, 3) (maj, min) = true ->
  let v := if le_ver (3, 8) (maj, min) then (3, 8) else if le_ver (3, 7) (maj, min) then (3, 7) else (3, 3) in
  exists s', handle_initial s (banner_of (maj, min)) =
             IGo s' (if lt_ver v (3, 7) then PAuth else PNumSec) [] [EWrite (banner_of v)] /\
             ver s' = v /\ ver_server s' = (maj, min).
Proof. exact version_negotiation. Qed.
Print Assumptions C03_version.

(** Security type: the byte selected is the greatest of (offered INTERSECT supported); none is
    selected (and the connection is closed) exactly when the intersection is empty. *)
Theorem C03_sectype : forall types,
  match max_common types SUPPORTED_AUTHS with
  | Some m => In m types /\ In m SUPPORTED_AUTHS /\ forall t, In t types -> In t SUPPORTED_AUTHS -> t <= m
  | None => forall t, In t types -> ~ In t SUPPORTED_AUTHS
  end.
Proof. exact sectype_selection. Qed.
Print Assumptions C03_sectype.

(** "Established" only after security succeeded: for every byte stream, as long as the run of
    the expect loop that started in the security phase has not left it (the pending expectation
    is still one of the security handlers), nothing has been reported as established - no
    vncConnectionMade, no factory notification. *)
Theorem C03_init_after_success : forall s p buf es r n,
  phase_of p = Security ->
  Drain st pend ev need step s p buf es r n ->
  match r with Idle _ p1 _ => phase_of p1 = Security | Crashed => False end ->
  good_trace Security es.
Proof. exact init_after_success. Qed.
Print Assumptions C03_init_after_success.

(** ...and the security phase is left only by one of the three success transitions of the
    negotiated version (type None chosen under 3.3/3.7, the 3.3 server-chosen scheme None, or a
    SecurityResult of 0), which ends by writing the one-byte ClientInit (the shared flag) and
    waits for ServerInit; once left, the security phase is never re-entered. *)
Theorem C03_clientinit_only_on_success : forall s p b s' q es,
  phase_of p = Security -> step s p b = Ok s' (Some q) es -> phase_of q = InitSent ->
  q = PServerInit /\
  (exists pre w, es = pre ++ [EWrite w] /\
                 Base.Struct.pack Gen.Formats.fmt_rfb_RFBClient_doClientInitialization_0
                                  [Base.Struct.VI (c_shared (cf s))] = Some w) /\
  ((exists n, p = PSecTypes n /\ lt_ver (ver s) (3, 8) = true) \/ p = PAuth \/ p = PAuthResult).
Proof. exact init_only_on_success. Qed.
Print Assumptions C03_clientinit_only_on_success.

Theorem C03_never_back : forall s p buf es r n,
  Drain st pend ev need step s p buf es r n -> phase_of p <> Security ->
  match r with Idle _ p1 _ => phase_of p1 <> Security | Crashed => True end.
Proof. exact Drain_never_back. Qed.
Print Assumptions C03_never_back.

(** Failure is reported and final: a SecurityResult of 1 or 2 under 3.3/3.7, or with a reason of
    any length (zero included) under 3.8, ends in vncAuthFailed(reason) then loseConnection, with
    nothing written and no new expectation registered. *)
Theorem C03_failure_reported : forall s reason,
  (lt_ver (ver s) (3, 8) = true ->
     step s PAuthResult [0; 0; 0; 1] = Ok s None [EAuthFailed AUTH_FAILED_MSG; ELose] /\
     step s PAuthResult [0; 0; 0; 2] = Ok s None [EAuthFailed TOO_MANY_MSG; ELose]) /\
  (lt_ver (ver s) (3, 8) = false ->
     step s PAuthResult [0; 0; 0; 1] = Ok s (Some PAuthFailed) [] /\
     step s PAuthResult [0; 0; 0; 2] = Ok s (Some PAuthFailed) []) /\
  step s PAuthFailed [0; 0; 0; 0] = Ok s None [EAuthFailed []; ELose] /\
  step s (PAuthFailedMsg (len reason)) reason = Ok s None [EAuthFailed reason; ELose] /\
  step s PConnFailed [0; 0; 0; 0] = Ok s None [ELose] /\
  step s (PConnMsg (len reason)) reason = Ok s None [ELose].
Proof. exact failure_reported. Qed.
Print Assumptions C03_failure_reported.

(** No password: base client closes; library client closes and reports; CLI client prompts. *)
Theorem C03_no_password : forall s chal,
  password s = None ->
  step s PVNCAuth chal =
    (let s' := set_challenge s chal in
     if c_variant (cf s) =? 0 then Ok s' (Some PAuthResult) [ELose]
     else if (c_variant (cf s) =? 1) || (c_variant (cf s) =? 3) then Ok s' (Some PAuthResult) [ELose; EErrback]
     else request_password s').
Proof. exact no_password. Qed.
Print Assumptions C03_no_password.
