(** C05 - Pointer events always carry the true position and button state. Statements only. *)
From Coq Require Import ZArith List Bool Lia.
From VD Require Import Base.Bytes Model.ClientMsgs Model.Pointer Model.ClientOps Spec.C2S.
From VD Require Import Proofs.C2SP Proofs.PointerP Proofs.ClientOpsP Proofs.PointerSpecP Gen.ExprsPointer Proofs.TiePointer.
Import ListNotations.
Open Scope Z_scope.

(** For every finite sequence of move / down / up / click / drag operations with positions
    0..65535, buttons 1..8 and drag step >= 1, run from any client state that agrees with a
    specification state (position, set of held buttons): nothing raises, and the bytes written
    parse (RFC 6143) into exactly the events of the specification run - each event carrying the
    position of the most recent move and the mask of exactly the buttons held at that moment, a
    click being one press and one release at the current position - and the client ends in
    agreement with the final specification state. *)
Theorem C05_events_carry_state : forall ops cs ss,
  Rel (cs_ptr cs) ss -> Forall pop_ok ops ->
  exists cs' ws b,
    run_ops cs (map to_op ops) = (cs', ws) /\ cat_some ws = Some b /\
    parse_c2s b = Some (snd (spec_run ss ops)) /\
    Rel (cs_ptr cs') (fst (spec_run ss ops)).
Proof.
  intros ops cs ss R H. destruct (pops_spec ops cs ss R H) as (cs' & S & R').
  destruct (run_ops_spec _ _ _ _ S) as (ws & b & E & C & P).
  exists cs', ws, b. split; [exact E|split; [exact C|split; [apply Parses_sound; exact P|exact R']]].
Qed.
Print Assumptions C05_events_carry_state.

(** The code's mask arithmetic is set/clear of the button's bit. *)
Theorem C05_mask_algebra : forall h b, 1 <= b <= 8 ->
  Z.lor (mask_of h) (Z.shiftl 1 (b - 1)) = mask_of (set_held h b true) /\
  Z.land (mask_of h) (Z.lnot (Z.shiftl 1 (b - 1))) = mask_of (set_held h b false).
Proof. intros h b H; split; [apply mask_down|apply mask_up]; exact H. Qed.
Print Assumptions C05_mask_algebra.

(** Geometry of a drag from (ox,oy) to (x,y) with step >= 1: the visited parameters are exactly
    the multiples of step below dmax = max(|dx|,|dy|), each intermediate point is the floor of
    the exact point of the segment on each axis (hence within one pixel), stays inside the
    bounding box, the sequence ends exactly on the target. *)
Theorem C05_drag_segment : forall ox oy x y step,
  1 <= step ->
  let dx := x - ox in let dy := y - oy in
  let dmax := Z.max (Z.abs dx) (Z.abs dy) in
  let steps := drag_steps (Z.to_nat dmax) 0 step dmax in
  drag_points ox oy x y step =
    map (fun s => (ox + dx * s / dmax, oy + dy * s / dmax)) steps ++ [(x, y)] /\
  (forall s, In s steps <-> exists k, 0 <= k /\ s = k * step /\ s < dmax) /\
  (forall s, In s steps ->
     dmax * (dx * s / dmax) <= dx * s < dmax * (dx * s / dmax) + dmax /\
     dmax * (dy * s / dmax) <= dy * s < dmax * (dy * s / dmax) + dmax /\
     Z.min ox x <= ox + dx * s / dmax <= Z.max ox x /\
     Z.min oy y <= oy + dy * s / dmax <= Z.max oy y).
Proof. exact drag_segment. Qed.
Print Assumptions C05_drag_segment.

(** Monotone along each axis in the direction of travel. *)
Theorem C05_drag_monotone : forall d s1 s2 dmax,
  0 < dmax -> s1 <= s2 ->
  (0 <= d -> d * s1 / dmax <= d * s2 / dmax) /\ (d <= 0 -> d * s2 / dmax <= d * s1 / dmax).
Proof. exact drag_point_mono. Qed.
Print Assumptions C05_drag_monotone.

(** The held buttons do not change during a drag, and it ends on the target. *)
Theorem C05_drag_buttons : forall ss x y step,
  fst (spec_step ss (PDrag x y step)) = mk_ss x y (s_held ss) /\
  Forall (fun m => exists px py, m = MPointerEvent (mask_of (s_held ss)) px py)
         (snd (spec_step ss (PDrag x y step))).
Proof. exact drag_buttons. Qed.
Print Assumptions C05_drag_buttons.

Example C05_nonvacuous :
  Rel (cs_ptr (mk_cstate ptr0 8 8 false false)) ss0 /\
  Forall pop_ok [PMove 10 20; PDown 1; PDrag 7 25 2; PClick 3; PUp 1].
Proof. split; [apply Rel0|repeat constructor; cbn; lia]. Qed.

(** The drag path of the model is the source's own: start, stop and step of the range, the intermediate position as a
    function of the loop variable and the final position are regenerated from client.py on every run (gen/exprs.py,
    [Gen/Exprs*.v]); Python's // is Coq's floor division. *)
Theorem C05_drag_path_is_source : forall s x y step,
  mouseDrag s x y step =
  if step =? 0 then (s, None)
  else moves s (map (gen_drag_move (px s) (py s) x y step) (py_range (gen_drag_range (px s) (py s) x y step))
                ++ [gen_drag_last (px s) (py s) x y step]).
Proof. exact mouseDrag_is_source. Qed.
Print Assumptions C05_drag_path_is_source.

(** The button and position bookkeeping of the model is the source's own ([Gen/Exprs*.v]): the three arguments of the one
    pointerEvent call of mouseMove / mouseDown / mouseUp and the new attribute values - assigned after the event has been
    written (fix: a move or press that cannot be sent is not remembered); `1 << (button - 1)` with button < 1 is
    Python's ValueError. *)
Theorem C05_pointer_ops_are_source : forall s x y b,
  mouseMove s x y = apply_ptr s (gen_mouseMove (px s) (py s) (pbuttons s) x y) /\
  mouseDown s b = (if gen_mouseDown_defined (px s) (py s) (pbuttons s) b then apply_ptr s (gen_mouseDown (px s) (py s) (pbuttons s) b) else (s, None)) /\
  mouseUp s b = (if gen_mouseUp_defined (px s) (py s) (pbuttons s) b then apply_ptr_eager (gen_mouseUp (px s) (py s) (pbuttons s) b) else (s, None)).
Proof. exact pointer_ops_are_source. Qed.
Print Assumptions C05_pointer_ops_are_source.

(** A move or a press that raises - a coordinate or a mask that does not fit the message - leaves the remembered position
    and buttons as they were: it cannot change what later operations send. *)
Theorem C05_failed_op_keeps_state : forall s x y b s',
  (mouseMove s x y = (s', None) -> s' = s) /\ (mouseDown s b = (s', None) -> s' = s).
Proof. exact failed_pointer_op_keeps_state. Qed.
Print Assumptions C05_failed_op_keeps_state.
