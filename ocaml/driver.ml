(* Line protocol: each input line is "name sexp"; output is one sexp per line.
   Integers are decimal, at most 62 bits; everything larger travels as byte lists. *)

let rec pos_of_int (n : int) : Model.positive =
  if n = 1 then Model.XH
  else if n land 1 = 0 then Model.XO (pos_of_int (n lsr 1))
  else Model.XI (pos_of_int (n lsr 1))

let z_of_int (n : int) : Model.z =
  if n = 0 then Model.Z0 else if n > 0 then Model.Zpos (pos_of_int n) else Model.Zneg (pos_of_int (-n))

let rec int_of_pos (p : Model.positive) : int =
  match p with Model.XH -> 1 | Model.XO q -> 2 * int_of_pos q | Model.XI q -> 2 * int_of_pos q + 1

let int_of_z (x : Model.z) : int =
  match x with Model.Z0 -> 0 | Model.Zpos p -> int_of_pos p | Model.Zneg p -> - (int_of_pos p)

(* tokenizer / parser *)
let parse_sexp (s : string) (start : int) : Model.sexp * int =
  let n = String.length s in
  let rec skip i = if i < n && (s.[i] = ' ' || s.[i] = '\t') then skip (i + 1) else i in
  let rec parse i =
    let i = skip i in
    if i >= n then failwith "eof"
    else if s.[i] = '(' then begin
      let rec items acc j =
        let j = skip j in
        if j >= n then failwith "unclosed"
        else if s.[j] = ')' then (Model.L (List.rev acc), j + 1)
        else let (x, j') = parse j in items (x :: acc) j'
      in items [] (i + 1)
    end else begin
      let j = ref i in
      while !j < n && s.[!j] <> ' ' && s.[!j] <> '(' && s.[!j] <> ')' do incr j done;
      (Model.I (z_of_int (int_of_string (String.sub s i (!j - i)))), !j)
    end
  in parse start

let rec print_sexp (b : Buffer.t) (x : Model.sexp) : unit =
  match x with
  | Model.I v -> Buffer.add_string b (string_of_int (int_of_z v))
  | Model.L l ->
      Buffer.add_char b '(';
      List.iteri (fun i y -> if i > 0 then Buffer.add_char b ' '; print_sexp b y) l;
      Buffer.add_char b ')'

let () =
  let b = Buffer.create 65536 in
  (try
    while true do
      let line = input_line stdin in
      let sp = try String.index line ' ' with Not_found -> String.length line in
      let name = String.sub line 0 sp in
      let name_z = List.init (String.length name) (fun i -> z_of_int (Char.code name.[i])) in
      let (arg, _) = if sp < String.length line then parse_sexp line sp else (Model.L [], 0) in
      Buffer.clear b;
      (try print_sexp b (Model.dispatch name_z arg)
       with Stack_overflow -> Buffer.clear b; Buffer.add_string b "(-2)");
      Buffer.add_char b '\n';
      print_string (Buffer.contents b)
    done
  with End_of_file -> ());
  flush stdout
