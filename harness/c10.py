"""C10 - command-line scripts compile to exactly the operations written, or to nothing."""
import io
import os
import random
import shlex
import shutil
import sys
import tempfile

import common

from vncdotool import command

TRUSTED_BASE = ["Model/Command.v + Model/Shlex.v hand-written (build_command_list, shlex posix/whitespace_split, int(), float() "
                "validity, os.path.splitext); SUPPORTED_FORMATS regenerated", "CPython shlex/int/float/os.path are modelled and "
                "validated by correspondence"]
ASSUMPTIONS = ["ASCII command lines", "float arguments are compared as float(token)/warp computed by the harness from the token "
               "the model kept"]
EXTRA_VO = ["Proofs/CommandTie.vo"]

COMMANDS = ["key", "kdown", "keydown", "kup", "keyup", "move", "mousemove", "click", "mdown", "mousedown", "mup", "mouseup",
            "type", "typefile", "pastefile", "capture", "expect", "rcapture", "rexpect", "pause", "sleep", "drag"]


class Recorder:
    """stands for factory.deferred: records (method name, args)"""

    def __init__(self):
        self.ops = []

    def addCallback(self, fn, *args, **kw):
        self.ops.append((fn.__name__,) + tuple(args))
        return self

    addCallbacks = addCallback


class FakeFactory:
    def __init__(self):
        self.deferred = Recorder()


def real_compile(args, delay, warp, inc=False):
    f = FakeFactory()
    try:
        command.build_command_list(f, list(args), delay, warp, inc)
        return ("ok", f.deferred.ops)
    except command.CommandParseError as e:
        kind = "format" if "unsupported image format" in str(e) else "unknown"
        return (kind, f.deferred.ops, str(e))
    except IndexError:
        return ("missing", f.deferred.ops)
    except ValueError:
        return ("number", f.deferred.ops)
    except (FileNotFoundError, IsADirectoryError):
        return ("nofile", f.deferred.ops)


def canon_model(ans, delay, warp, inc):
    """model answer -> same shape as real_compile, floats computed here from the kept tokens"""
    def t(x):
        return "".join(map(chr, x))
    ops = []
    d = float(delay) / 1000.0 if delay else None
    for o in ans[1]:
        k = o[0]
        if k == 0:
            ops.append(("keyPress", t(o[1])))
        elif k == 1:
            ops.append(("keyDown", t(o[1])))
        elif k == 2:
            ops.append(("keyUp", t(o[1])))
        elif k == 3:
            ops.append(("mouseMove", o[1], o[2]))
        elif k == 4:
            ops.append(("mousePress", o[1]))
        elif k == 5:
            ops.append(("mouseDown", o[1]))
        elif k == 6:
            ops.append(("mouseUp", o[1]))
        elif k == 7:
            ops.append(("mouseDrag", o[1], o[2]))
        elif k == 8:
            ops.append(("paste", t(o[1])))
        elif k == 9:
            ops.append(("captureScreen", t(o[1]), int(inc)))
        elif k == 10:
            ops.append(("captureRegion", t(o[1]), o[2], o[3], o[4], o[5]))
        elif k == 11:
            ops.append(("expectScreen", t(o[1]), float(t(o[2]))))
        elif k == 12:
            ops.append(("expectRegion", t(o[1]), o[2], o[3], float(t(o[4]))))
        elif k == 13:
            ops.append(("pause", float(t(o[1])) / warp))
        elif k == 14:
            ops.append(("pause", d))
    head = ans[0]
    if head == 0:
        return ("ok", ops)
    kind = {1: "unknown", 2: "format", 3: "missing", 4: "number", 5: "nofile", 6: "number", 7: "fuel"}[head[0]]
    return (kind, ops)


def same(real, model):
    if real[0] != model[0]:
        return False
    a, b = real[1], model[1]
    if len(a) != len(b):
        return False
    for x, y in zip(a, b):
        if x[0] != y[0] or len(x) != len(y):
            return False
        for u, v in zip(x[1:], y[1:]):
            if isinstance(u, float) or isinstance(v, float):
                if u != v and not (u != u and v != v):
                    return False
            elif u != v:
                return False
    return True


def text_mode(content):
    """what open(name).read() returns for a file with these characters: universal newlines (a line ends with LF, CR LF or CR)"""
    return content.replace("\r\n", "\n").replace("\r", "\n")


def gen_script(rng, files, tmp):
    """-> (tokens, expected ops or None)  expected is known for well-formed scripts (the oracle)"""
    toks, exp = [], []
    n = rng.randrange(0, 12)
    keys = ["a", "A", "ctrl-alt-del", "enter", "-", "#", "f1", "shift-x", "é", "0", "key", "drag"]
    for ci in range(n):
        if ci:
            exp.append(("|",))          # command boundary: a delay pause goes here
        c = rng.choice(COMMANDS)
        if c == "key":
            k = rng.choice(keys)
            toks += [c, k]
            exp.append(("keyPress", k))
        elif c in ("kdown", "keydown"):
            k = rng.choice(keys)
            toks += [c, k]
            exp.append(("keyDown", k))
        elif c in ("kup", "keyup"):
            k = rng.choice(keys)
            toks += [c, k]
            exp.append(("keyUp", k))
        elif c in ("move", "mousemove"):
            x, y = rng.randrange(0, 2000), rng.randrange(0, 2000)
            toks += [c, str(x), str(y)]
            exp.append(("mouseMove", x, y))
        elif c == "click":
            b = rng.randrange(1, 9)
            toks += [c, str(b)]
            exp.append(("mousePress", b))
        elif c in ("mdown", "mousedown"):
            b = rng.randrange(1, 9)
            toks += [c, str(b)]
            exp.append(("mouseDown", b))
        elif c in ("mup", "mouseup"):
            b = rng.randrange(1, 9)
            toks += [c, str(b)]
            exp.append(("mouseUp", b))
        elif c == "type":
            # an argument is typed character by character as it stands (TAB, LF, CR are characters, not key names: those
            # are typefile's reading of a FILE)
            text = rng.choice(["hello", "", "a b", "Hi!#", "x", "a\tb", "l1\nl2", "\n"])     # (CR would be rewritten by text-mode reading when the word sits in a script file)
            toks += [c, text]
            for ch in text:
                exp += [("keyPress", ch), ("t",)]
        elif c == "typefile":
            fn = rng.choice([f for f in files if f.endswith(".txt")])
            toks += [c, fn]
            for ch in text_mode(files[fn]):
                if ch == "\r":
                    continue
                exp += [("keyPress", "enter" if ch == "\n" else "tab" if ch == "\t" else ch), ("t",)]
        elif c == "pastefile":
            fn = rng.choice([f for f in files if f.endswith(".txt")])
            toks += [c, fn]
            exp.append(("paste", text_mode(files[fn])))
        elif c == "capture":
            fn = rng.choice(["out.png", "a/b.jpg", "x.jpeg", "s.gif", "t.bmp", ".hidden.png", "a.b.png"])
            toks += [c, fn]
            exp.append(("captureScreen", fn, "INC"))
        elif c == "rcapture":
            fn = rng.choice(["r.png", "r.bmp"])
            v = [rng.randrange(0, 300) for _ in range(4)]
            toks += [c, fn] + [str(x) for x in v]
            exp.append(("captureRegion", fn) + tuple(v))
        elif c == "expect":
            r = rng.choice(["0", "10", "0.5", "1e2", ".5", "3."])
            toks += [c, "img.png", r]
            exp.append(("expectScreen", "img.png", float(r)))
        elif c == "rexpect":
            r = rng.choice(["0", "2.5"])
            x, y = rng.randrange(0, 100), rng.randrange(0, 100)
            toks += [c, "img.png", str(x), str(y), r]
            exp.append(("expectRegion", "img.png", x, y, float(r)))
        elif c in ("pause", "sleep"):
            r = rng.choice(["0", "1", "0.25", "10", "1e-3"])
            toks += [c, r]
            exp.append(("pause", ("W", float(r))))
        elif c == "drag":
            x, y = rng.randrange(0, 500), rng.randrange(0, 500)
            toks += [c, str(x), str(y)]
            exp.append(("mouseDrag", x, y))
    return toks, exp


def finalize(exp, warp, inc, delay=None):
    out = []
    d = float(delay) / 1000.0 if delay else None
    for o in exp:
        if o[0] in ("|", "t"):
            if d:
                out.append(("pause", d))
        elif o[0] == "pause" and isinstance(o[1], tuple):
            out.append(("pause", o[1][1] / warp))
        elif o[0] == "captureScreen":
            out.append(("captureScreen", o[1], int(inc)))
        else:
            out.append(o)
    return out


def strip_delays(ops, delay):
    if not delay:
        return ops
    d = float(delay) / 1000.0
    return [o for o in ops if not (o[0] == "pause" and o[1] == d and o.__class__ is tuple and len(o) == 2 and o[1] == d and getattr(o, "_d", True))]


def run(tier, seed, model):
    camp = common.Campaign()
    rng = random.Random(seed * 7919 + 10)
    n = 900 if tier == "quick" else 30000
    tmp = tempfile.mkdtemp(prefix="verif-c10-")
    cwd = os.getcwd()
    os.chdir(tmp)
    try:
        files = {"t1.txt": "ab\r\nc\td\n", "empty.txt": "", "u.txt": "x y", "cr.txt": "ab\rcd\r", "mixed.txt": "a\tb\nc\rd\ne\r\r\nf"}
        for fn, content in files.items():
            with open(fn, "w", newline="") as f:
                f.write(content)
        os.mkdir("a")
        os.mkdir("somedir")
        cases = []      # (args, delay, warp, inc, expected or None, kind, file table for the model)
        script_files = {}

        def model_files():
            d = dict(files)
            d.update(script_files)
            return [[k, v] for k, v in d.items()]

        # 1. well-formed scripts, as arguments
        for i in range(n // 3):
            toks, exp = gen_script(rng, files, tmp)
            delay = rng.choice([None, 0, 10, 250])
            warp = rng.choice([1.0, 2.0, 0.5])
            inc = rng.random() < 0.3
            cases.append((toks, delay, warp, inc, finalize(exp, warp, inc, delay), "args"))
        # 2. the same through script files (quoting, comments, nesting)
        for i in range(n // 3):
            toks, exp = gen_script(rng, files, tmp)
            delay = rng.choice([None, 0])      # with a delay a file name costs one extra pause (compared with the model only)
            warp = rng.choice([1.0, 4.0])
            name = f"s{i}.vdo"
            lines = []
            line = []
            for t in toks:
                q = shlex.quote(t)
                if rng.random() < 0.2 and t and all(ch not in t for ch in "'\"\\ #\n\t"):
                    q = '"' + t + '"'
                line.append(q)
                if rng.random() < 0.3:
                    lines.append(" ".join(line) + rng.choice(["", "  # comment here", "\t"]))
                    line = []
            lines.append(" ".join(line))
            if rng.random() < 0.3:
                lines.insert(rng.randrange(len(lines) + 1), "# a comment line")
            content = "\n".join(lines) + rng.choice(["", "\n"])
            pre, pexp = gen_script(rng, files, tmp) if rng.random() < 0.5 else ([], [])
            post, qexp = gen_script(rng, files, tmp) if rng.random() < 0.5 else ([], [])
            if rng.random() < 0.25:
                inner = name
                name2 = f"outer{i}.vdo"
                script_files[inner] = content
                with open(inner, "w") as f:
                    f.write(content)
                content = "key q " + inner + " key z\n"
                exp = [("keyPress", "q"), ("|",)] + exp + [("|",), ("keyPress", "z")]
                name = name2
            script_files[name] = content
            with open(name, "w") as f:
                f.write(content)
            cases.append((pre + [name] + post, delay, warp, False, finalize(pexp + exp + qexp, warp, False), "file"))
            if rng.random() < 0.3:
                # the same file named again (on the command line, and from inside another file): each mention is its contents
                cases.append(([name, "key", "m", name] + post, delay, warp, False,
                              finalize(exp + [("keyPress", "m")] + exp + qexp, warp, False), "file-named-twice"))
                twice = f"twice{i}.vdo"
                content2 = name + " key w\n" + name + "\n"
                script_files[twice] = content2
                with open(twice, "w") as f:
                    f.write(content2)
                cases.append((pre + [twice], delay, warp, False,
                              finalize(pexp + exp + [("keyPress", "w")] + exp, warp, False), "file-named-twice"))
            if rng.random() < 0.3:
                cases.append((pre + [name] + post, rng.choice([10, 250]), warp, False, None, "file-with-delay"))
        # 3. near-miss command words, bad extensions, missing / bad arguments
        words = set()
        for c in COMMANDS:
            for i in range(len(c) + 1):
                for j in range(i, len(c) + 1):
                    words.add(c[i:j])
            for i in range(len(c)):
                words.add(c[:i] + c[i + 1:])
                words.add(c[:i] + "x" + c[i:])
                words.add(c[:i] + c[i].upper() + c[i + 1:])
            words.add(c + " ")
            words.add(c + "s")
        for wd in sorted(words):
            if wd in COMMANDS:
                continue
            cases.append((["key", "a", wd, "1", "2"], None, 1.0, False, "unknown" if not os.path.isfile(wd) else None, "near-miss"))
        for fn in ["x.tiff", "noext", "x.PNG", "a.png/b", ".png", "x.", "png", "dir.png/x"]:
            cases.append((["key", "a", "capture", fn, "key", "b"], None, 1.0, False, "format", "bad-extension"))
            cases.append((["rcapture", fn, "1", "2", "3", "4"], None, 1.0, False, "format", "bad-extension"))
        for bad in [["move", "1"], ["click"], ["key"], ["move", "x", "1"], ["click", "1.5"], ["pause", "abc"], ["expect", "f.png"],
                    ["typefile", "missing.txt"], ["pastefile", "somedir"], ["drag", "1"], ["move", "1_0", " 2 "], ["pause", "1_0.5"],
                    ["pause", "inf"], ["click", "-1"], ["pause", " 2 "], ["rexpect", "f", "1", "2"], ["type"]]:
            cases.append((bad, rng.choice([None, 10]), 1.0, False, None, "bad-args"))
        answers = None
        if model is not None:
            allf = dict(files)
            allf.update(script_files)

            def files_for(args):
                # only the files a case can reach: those named in it, and those named inside them
                seen, todo = {}, [a for a in args if a in allf]
                while todo:
                    f = todo.pop()
                    if f in seen:
                        continue
                    seen[f] = text_mode(allf[f]) if f in files else allf[f]
                    todo += [t for t in allf if t in allf[f]]
                return [[k, v] for k, v in seen.items()]

            answers = model.call_many([("compile", [bool(c[1]), files_for(c[0]), c[0]]) for c in cases])
        for i, (args, delay, warp, inc, exp, kind) in enumerate(cases):
            camp.evaluations += 1
            camp.count(kind)
            real = real_compile(args, delay, warp, inc)
            if exp is not None:
                camp.nontrivial.add((tuple(args), delay, warp))
                if isinstance(exp, str):
                    ok = real[0] == exp and (exp != "unknown" or True)
                    what = f"{args!r} should be rejected ({exp}), build_command_list gave {real[0]} with ops {real[1][:4]}"
                else:
                    got = real[1] if real[0] == "ok" else None
                    ok = real[0] == "ok" and got == exp
                    what = f"{args!r} (delay={delay}, warp={warp}) compiled to {real[0]}:{(got or real[1])[:6]}, expected {exp[:6]}"
                if not ok:
                    camp.oracle_failures.append({"kind": "oracle", "property": "C10",
                                                 "case": {"args": args, "delay": delay, "warp": warp, "inc": inc,
                                                          "files": {k: v for k, v in script_files.items() if k in args},
                                                          "expected": exp if isinstance(exp, str) else [list(o) for o in exp]},
                                                 "what": what})
                    if len(camp.oracle_failures) >= 3:
                        break
            if answers is not None:
                m = canon_model(answers[i], delay, warp, inc)
                if not same(real, m):
                    camp.model_mismatches.append({"property": "C10", "case": {"args": args, "delay": delay, "warp": warp},
                                                  "what": f"{args!r} delay={delay}: model {m[0]}:{m[1][:5]} vs implementation {real[0]}:{real[1][:5]}"})
            if len(camp.samples) < 6 and i % 173 == 0:
                camp.samples.append({"args": args[:12], "delay": delay, "result": real[0]})
        # 4. rejected before any connection: build_tool
        reject_before_connect(camp)
        # 5. standard input, and the word "-" as an argument value
        stdin_and_dash(camp)
        # 6. the whole command line: everything from the first command word on is the script, dashes and all
        command_line(camp, rng, 60 if tier == "quick" else 1500)
    finally:
        os.chdir(cwd)
        shutil.rmtree(tmp, ignore_errors=True)
    camp.rule = ("random well-formed scripts over the 22 command words and aliases given as arguments and through generated script "
                 "files (shlex quoting, double quotes, comments, nested files, text before/after the file name), delay/warp/"
                 "incremental settings; all substrings and one-edit neighbours of every command word; unsupported capture "
                 "extensions; missing/ill-formed arguments; the operations registered on the factory Deferred are compared with "
                 "the expected list (oracle) and with the Coq model; build_tool is checked to exit before factory_connect on error; "
                 "non-trivial = case with an expected result")
    return camp


def reject_before_connect(camp):
    import optparse
    calls = []
    orig = command.factory_connect
    command.factory_connect = lambda *a, **k: calls.append(a)
    try:
        for args in [["key", "a", "bogus"], ["capture", "x.tiff"], ["key", "a", "rcapture", "f.xyz", "1", "2", "3", "4"], ["dra", "1", "2"], [""]]:
            opts = optparse.Values({"verbose": 0, "delay": 10, "warp": 1.0, "incremental_refreshes": False, "host": "h",
                                    "port": 1, "address_family": 0})
            camp.evaluations += 1
            try:
                command.build_tool(opts, list(args))
                outcome = "built"
            except SystemExit as e:
                outcome = "exit"
            if outcome != "exit" or calls:
                camp.oracle_failures.append({"kind": "oracle", "property": "C10", "case": {"args": args, "build_tool": True},
                                             "what": f"build_tool({args!r}) -> {outcome}, factory_connect called {len(calls)} time(s): "
                                                     "a script with an unknown word must be rejected before any connection"})
                calls.clear()
    finally:
        command.factory_connect = orig


def command_line(camp, rng, n):
    """vncdo [options] WORD...: through the real option parser of vncdo().  Options come first; from the first command word on
    every word belongs to the script - also words that look like options (type -hello, move 10 -5, key a -v)"""
    class Stop(Exception):
        pass
    seen = []

    def fake_build_tool(options, args):
        seen.append((options, list(args)))
        raise Stop()
    saved = (command.build_tool, command.setup_logging, sys.argv, sys.stdout, sys.stderr)
    command.build_tool = fake_build_tool
    command.setup_logging = lambda options: None
    opts_pool = [(["-v"], ("verbose", 1)), (["-vv"], ("verbose", 2)), (["--delay", "25"], ("delay", 25)), (["-w", "4"], ("warp", 4.0)),
                 (["--warp=0.5"], ("warp", 0.5)), (["-s", "host7::5911"], ("server", "host7::5911")), (["--nocursor"], ("nocursor", True)),
                 (["-t", "9"], ("timeout", 9.0)), (["--force-caps"], ("force_caps", True)), (["-p", "pw"], ("password", "pw"))]
    dashy = ["-v", "-hello", "--delay", "-5", "-", "--warp=2", "-s", "-p", "--", "-t", "-h", "--version", "--nocursor", "-10"]
    try:
        for i in range(n):
            chosen = rng.sample(opts_pool, rng.randrange(0, 4))
            keys = [k for _, (k, _v) in chosen]
            if len(set(keys)) != len(keys):
                continue
            prefix = [t for toks, _ in chosen for t in toks]
            words = []
            for _ in range(rng.randrange(1, 5)):
                cmd = rng.choice(["type", "key", "move", "pause", "click", "capture", "type", "key"])
                words.append(cmd)
                for _ in range({"move": 2}.get(cmd, 1)):
                    words.append(rng.choice(dashy) if rng.random() < 0.5 else rng.choice(["a", "10", "x.png", "ctrl-c", "0.5"]))
            if rng.random() < 0.3:
                words.append(rng.choice(dashy))                   # a stray word at the end: build_tool's to reject, not the parser's to eat
            sys.argv = ["vncdo"] + prefix + words
            sys.stdout = sys.stderr = io.StringIO()
            seen.clear()
            outcome = None
            try:
                command.vncdo()
                outcome = "returned"
            except Stop:
                outcome = "built"
            except SystemExit as e:
                outcome = f"exit {e.code}"
            except Exception as e:  # noqa: BLE001
                outcome = f"raised {type(e).__name__}: {e}"
            finally:
                sys.stdout, sys.stderr = saved[3], saved[4]
            camp.evaluations += 1
            camp.count("command-line")
            camp.count("command-line:dash-words", sum(1 for w_ in words if w_.startswith("-")))
            camp.nontrivial.add(("argv", tuple(prefix), tuple(words)))
            why = None
            if outcome != "built":
                why = f"vncdo {outcome} before the script reached build_tool"
            elif seen[0][1] != words:
                why = f"build_tool received the script {seen[0][1]}"
            else:
                o = seen[0][0]
                for _, (k, v) in chosen:
                    if getattr(o, k, None) != v:
                        why = f"option {k} is {getattr(o, k, None)!r}, the command line says {v!r}"
                defaults = {"verbose": 0, "warp": 1.0, "nocursor": None, "timeout": None, "force_caps": None, "password": None, "server": "127.0.0.1"}
                for k, v in defaults.items():
                    if k not in keys and getattr(o, k, v) != v and why is None:
                        why = f"option {k} became {getattr(o, k)!r} although only script words mention it"
            if why:
                camp.oracle_failures.append({"kind": "oracle", "property": "C10", "case": {"argv": prefix + words, "build_tool": True},
                                             "what": f"vncdo {' '.join(prefix + words)}: the script is {words}; {why}"})
                return
    finally:
        command.build_tool, command.setup_logging, sys.argv, sys.stdout, sys.stderr = saved


def stdin_and_dash(camp):
    """vncdo - reads the script from standard input; a "-" anywhere else is an ordinary word (key -, type -)"""
    import optparse
    calls = []
    saved = (command.factory_connect, command.VNCDoCLIFactory, sys.stdin)
    command.factory_connect = lambda *a, **k: calls.append(a)
    command.VNCDoCLIFactory = FakeFactory
    script = "key a\ntype 'x y'  # trailing comment\n# a comment line\nmove 1 2 click 1\n"
    scenarios = [(["-"], script, shlex.split(script, comments=False, posix=True)),
                 (["-"], "", []),
                 (["key", "-"], "enter\n", None),
                 (["type", "5", "key", "-", "type", "3"], "", None),
                 (["move", "1", "2", "type", "-"], "key x\n", None),
                 (["key", "-", "click", "1"], "enter\n", None),
                 (["type", "a-b", "key", "shift--"], "key q\n", None)]
    # shlex.split(comments=False) keeps '#' words: compute the expected tokens of the stdin script the way build_tool documents it
    lex = shlex.shlex(io.StringIO(script), posix=True)
    lex.whitespace_split = True
    scenarios[0] = (["-"], script, list(lex))
    try:
        for args, text, expanded in scenarios:
            want_args = args if expanded is None else expanded
            want = real_compile(want_args, 0, 1.0, False)
            opts = optparse.Values({"verbose": 0, "delay": 0, "warp": 1.0, "incremental_refreshes": False, "host": "h",
                                    "port": 1, "address_family": 0})
            sys.stdin = io.StringIO(text)
            calls.clear()
            camp.evaluations += 1
            camp.count("stdin" if args == ["-"] else "dash-as-argument")
            camp.nontrivial.add(("stdin", tuple(args), text))
            try:
                f = command.build_tool(opts, list(args))
                got = ("ok", [o for o in f.deferred.ops if o[0] != "close_connection"])
            except SystemExit as e:
                got = ("exit", str(e))
            except Exception as e:  # noqa: BLE001
                got = ("raised", f"{type(e).__name__}: {e}")
            if got[0] != want[0] or (want[0] == "ok" and got[1] != want[1]) or len(calls) != (1 if want[0] == "ok" else 0):
                camp.oracle_failures.append({"kind": "oracle", "property": "C10",
                                             "case": {"args": args, "stdin": text, "build_tool": True},
                                             "what": f"vncdo {' '.join(args)} with {text!r} on standard input: expected the operations of "
                                                     f"{want_args!r} = {want[1][:6]} and one connection, got {got[0]}: {got[1][:6] if got[0] == 'ok' else got[1]}, "
                                                     f"{len(calls)} connection(s)"})
                return
    finally:
        command.factory_connect, command.VNCDoCLIFactory, sys.stdin = saved


def replay(payload):
    case = payload["case"]
    if case.get("build_tool"):
        return True, "replay: build_tool scenario; re-run ./check C10"
    tmp = tempfile.mkdtemp(prefix="verif-c10r-")
    cwd = os.getcwd()
    os.chdir(tmp)
    try:
        for k, v in case.get("files", {}).items():
            with open(k, "w") as f:
                f.write(v)
        real = real_compile(case["args"], case.get("delay"), case.get("warp", 1.0), case.get("inc", False))
    finally:
        os.chdir(cwd)
        shutil.rmtree(tmp, ignore_errors=True)
    return True, f"replay: build_command_list({case['args']!r}) -> {real[0]} {real[1][:8]} (expected {case.get('expected')})"
