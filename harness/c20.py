"""C20 - server addresses parse according to the documented grammar."""
import ipaddress
import os
import random
import socket
import tempfile

import common

from vncdotool import command

TRUSTED_BASE = ["Model/Server.v hand-written (py_int, is_ipv4 model CPython's int() and ipaddress.IPv4Address on ASCII input)",
                "os.path.exists and ipaddress.IPv6Address are oracle inputs of the model"]
ASSUMPTIONS = ["ASCII input strings", "shapes the statement does not list (host:1:2, [::1]junk, signs/underscores/blanks that "
               "Python's int() accepts) are compared with the model only, not judged"]

FAM = {socket.AF_UNSPEC: 0, socket.AF_INET: 2, socket.AF_INET6: 10, socket.AF_UNIX: 1}

HOSTS = ["", "localhost", "example.org", "a", "host-1.example.com", "10.0.0.1", "255.255.255.255", "0.0.0.0",
         "1.2.3", "1.2.3.4.5", "256.1.1.1", "01.2.3.4", "1.2.3.04", "1.2.3.4 ", "1..3.4", "1.2.3.a", "1234.1.1.1",
         "::1", "fe80", "x" * 60, "127.0.0.1", "host_name", "HOST", "1", "5900"]
V6 = ["::1", "::", "fe80::1", "2001:db8::ff00:42:8329", "0:0:0:0:0:0:0:1", "2001:DB8::1", "::ffff:1.2.3.4",
      "fe80::1%eth0", "1::2::3", "12345::", "", "g::1", "1.2.3.4", ":::"]
NUMS = ["0", "1", "2", "10", "99", "100", "5900", "5901", "59000", "65535", "65536", "007", "00", "123456789012"]
BADNUMS = ["", "x", "1x", "x1", "1.5", "0x10", "1e3", "--1", "+-1", "1 2", "_1", "1_", "1__2"]
ODDNUMS = ["-1", "+5", " 7", "7 ", "1_000", "\t42\n", "-0"]


def real(s):
    try:
        fam, host, port = command.parse_server(s)
        return (FAM[fam], host, port)
    except Exception as e:  # noqa: BLE001
        return ("error", type(e).__name__)


def run(tier, seed, model):
    camp = common.Campaign()
    rng = random.Random(seed * 7919 + 20)
    n_random = 1500 if tier == "quick" else 60000
    tmp = tempfile.mkdtemp(prefix="verif-c20-")
    sockpath = os.path.join(tmp, "sock")
    open(sockpath, "w").close()
    hosts = HOSTS + [sockpath, tmp, os.path.join(tmp, "missing")]
    cases = []   # (string, expected or None, kind)

    def fam_of(h):
        eh = h or "127.0.0.1"
        if os.path.exists(eh):
            return 1
        try:
            ipaddress.IPv4Address(eh)
            return 2
        except ipaddress.AddressValueError:
            return 0

    # --- the grammar, enumerated: every host x every form x every number
    for h in hosts:
        if ":" in h or h.startswith("["):
            continue
        eh = h or "127.0.0.1"
        cases.append((h, (fam_of(h), eh, 5900), "host"))
        for n in NUMS:
            cases.append((f"{h}:{n}", (fam_of(h), eh, 5900 + int(n)), "host:N"))
            cases.append((f"{h}::{n}", (fam_of(h), eh, int(n)), "host::P"))
        for n in BADNUMS:
            cases.append((f"{h}:{n}", "error", "bad-number"))
            cases.append((f"{h}::{n}", "error", "bad-number"))
        for n in ODDNUMS:
            cases.append((f"{h}:{n}", None, "odd-number"))
        cases.append((f"{h}:1:2:3", "error", "many-colons"))
        cases.append((f"{h}::1:2", "error", "many-colons"))
        cases.append((f"{h}:::", "error", "many-colons"))
        cases.append((f"{h}:1:2", None, "unlisted-shape"))
    for a in V6:
        try:
            ipaddress.IPv6Address(a)
            ok = True
        except ValueError:
            ok = False
        for suffix, port in [("", 5900)] + [(f":{n}", 5900 + int(n)) for n in NUMS] + [(f"::{n}", int(n)) for n in NUMS]:
            cases.append((f"[{a}]{suffix}", (10, a, port) if ok else "error", "ipv6" if ok else "bad-ipv6"))
        cases.append((f"[{a}", "error", "unterminated"))
        cases.append((f"[{a}:5", "error", "unterminated"))
        for n in BADNUMS:
            cases.append((f"[{a}]:{n}", "error", "bad-number"))
        cases.append((f"[{a}]junk:1", None, "unlisted-shape"))
        cases.append((f"[{a}]:1:2:3", "error", "many-colons"))
    # --- random one/two-edit neighbours of grammar strings
    alphabet = "0123456789:[].-_+ abcxyz]/\t"
    base = [c[0] for c in cases]
    for _ in range(n_random):
        s = list(rng.choice(base))
        for _k in range(rng.choice([1, 1, 2, 3])):
            r = rng.random()
            pos = rng.randrange(len(s) + 1)
            if r < 0.4 and s:
                s[min(pos, len(s) - 1)] = rng.choice(alphabet)
            elif r < 0.7:
                s.insert(pos, rng.choice(alphabet))
            elif s:
                del s[min(pos, len(s) - 1)]
        cases.append(("".join(s), None, "mutated"))

    reqs = []
    if model is not None:
        for s, _e, _k in cases:
            ex = []
            v6 = []
            if s.startswith("["):
                cand = s[1:].partition("]")[0]
                try:
                    ipaddress.IPv6Address(cand)
                    v6.append(cand)
                except ValueError:
                    pass
            else:
                eh = s.split(":")[0] or "127.0.0.1"
                if os.path.exists(eh):
                    ex.append(eh)
            reqs.append(("parse_server", [s, ex, v6]))
        answers = model.call_many(reqs)
    for i, (s, exp, kind) in enumerate(cases):
        camp.evaluations += 1
        camp.count(kind)
        got = real(s)
        gotc = "error" if got[0] == "error" else got
        if exp is not None:
            camp.nontrivial.add(s)
            if gotc != exp:
                camp.oracle_failures.append({"kind": "oracle", "property": "C20", "case": {"server": s, "expected": exp},
                                             "what": f"parse_server({s!r}) = {got!r}, the documented grammar says {exp!r}"})
        if model is not None:
            a = answers[i]
            m = "error" if a == [] else (a[0], "".join(map(chr, a[1])), a[2])
            if m != gotc:
                camp.model_mismatches.append({"property": "C20", "case": {"server": s},
                                              "what": f"parse_server({s!r}): model {m!r} vs implementation {got!r}"})
        if len(camp.samples) < 6 and i % 97 == 0:
            camp.samples.append({"server": s, "kind": kind, "result": list(got)})
    camp.rule = ("enumeration of the documented grammar (every host incl. IPv4-like literals, empty host, an existing socket path "
                 "x {host, host:N, host::P} x 14 numbers; 14 bracketed IPv6 literals x the same forms; the four rejection shapes) "
                 "plus random 1-3 edit neighbours; real parse_server vs expected tuple and vs the extracted Coq model; "
                 "non-trivial = string with an expected result by the grammar (distinct strings)")
    # --- the library entry point hands the connector exactly what the grammar says (api.connect -> parse_server -> connect)
    from vncdotool import api
    seen = []

    class FakeReactor:
        running = True

        def callWhenRunning(self, f, *a, **kw):
            f(*a, **kw)

        def callFromThread(self, f, *a, **kw):
            f(*a, **kw)

    # the real proxy class (its connect() is part of the path); what reaches the connector is recorded
    RecProxy = api.ThreadedVNCClientProxy
    saved_reactor, saved_fc = api.reactor, api.factory_connect
    api.reactor = FakeReactor()
    # ... and what the connector itself builds (the real factory_connect runs; the endpoints are recorders)
    from twisted.internet.defer import Deferred
    from vncdotool import client as vclient
    endpoints = []

    class RecEndpoint:
        def __init__(self, kind, *a):
            endpoints.append((kind,) + a)

        def connect(self, factory):
            return Deferred()
    saved_eps = (vclient.HostnameEndpoint, vclient.UNIXClientEndpoint)
    vclient.HostnameEndpoint = lambda reactor, host, port, *a, **kw: RecEndpoint("tcp", host, port)
    vclient.UNIXClientEndpoint = lambda reactor, path, *a, **kw: RecEndpoint("unix", path)
    real_fc = vclient.factory_connect

    def rec_fc(factory, host, port, family):
        seen.append((FAM.get(family, family), host, port))
        real_fc(factory, host, port, family)
    api.factory_connect = rec_fc
    try:
        extra = ["localhost", "LOCALHOST:2", "Localhost::5901", "ip6-localhost", ":3", "::6001", "nas.example.org", "vnc-lab:2", "c::5901", "vnc", "n:1", "v.example:0", "/" + "nonexistent/vnc.sock", sockpath]
        pool = [(s_, e) for s_, e, _k in cases if isinstance(e, tuple)]
        sample = rng.sample(pool, min(250, len(pool))) + [(x, None) for x in extra]
        for srv, exp in sample:
            if exp is None:
                exp = real(srv)
                if exp[0] == "error":
                    continue
            seen.clear()
            endpoints.clear()
            try:
                api.connect(srv, None, api.VNCDoToolFactory, RecProxy, None)
                got = seen[0] if seen else ("no-connect",)
            except Exception as e:  # noqa: BLE001
                got = ("error", type(e).__name__)
            want_ep = [("unix", exp[1])] if exp[0] == 1 else [("tcp", exp[1], exp[2])]
            if tuple(got) == tuple(exp) and endpoints != want_ep:
                camp.oracle_failures.append({"kind": "oracle", "property": "C20", "case": {"server": srv, "expected": list(exp), "api": True},
                                             "what": f"api.connect({srv!r}): the connector was built for {endpoints}, the documented grammar says {want_ep}"})
                break
            camp.evaluations += 1
            camp.count("api.connect")
            camp.nontrivial.add(("api", srv))
            if tuple(got) != tuple(exp):
                camp.oracle_failures.append({"kind": "oracle", "property": "C20", "case": {"server": srv, "expected": list(exp), "api": True},
                                             "what": f"api.connect({srv!r}) handed {got!r} to the connector, the documented grammar says {tuple(exp)!r}"})
                break
    finally:
        api.reactor, api.factory_connect = saved_reactor, saved_fc
        vclient.HostnameEndpoint, vclient.UNIXClientEndpoint = saved_eps
    # --- the file system may change between two calls: "UNIX for an existing socket path" is about NOW
    hist = os.path.join(tmp, "later.sock")
    steps = [("before it exists", False), ("after it was created", True), ("asked again", True), ("after it was removed", False),
             ("after it was created again", True)]
    for forms in (lambda p: p, lambda p: p + ":3", lambda p: p + "::77"):
        for label, exists in steps:
            if exists and not os.path.exists(hist):
                open(hist, "w").close()
            if not exists and os.path.exists(hist):
                os.remove(hist)
            srv = forms(hist)
            port = 5900 if srv == hist else (5903 if srv.endswith(":3") and not srv.endswith("::3") else 77)
            exp = (1 if exists else 0, hist, port)
            got = real(srv)
            camp.evaluations += 1
            camp.count("path-history")
            camp.nontrivial.add(("history", srv, label))
            if got != exp:
                camp.oracle_failures.append({"kind": "oracle", "property": "C20", "case": {"server": srv, "history": label},
                                             "what": f"parse_server({srv!r}) {label}: {got!r}, expected {exp!r} (family UNIX exactly "
                                                     "while the path exists)"})
                break
    if os.path.exists(hist):
        os.remove(hist)
    os.remove(sockpath)
    os.rmdir(tmp)
    return camp


def replay(payload):
    if payload["case"].get("api"):
        return True, "replay: api.connect case; re-run ./check C20"
    if "history" in payload["case"]:
        return True, "replay: file-system history case; re-run ./check C20"
    s = payload["case"]["server"]
    got = real(s)
    exp = payload["case"].get("expected")
    if exp is None:
        return True, f"replay: parse_server({s!r}) = {got!r} (no expectation stored: correspondence case)"
    gotc = "error" if got[0] == "error" else list(got)
    expc = exp if exp == "error" else list(exp)
    ok = gotc == expc
    return ok, f"replay: parse_server({s!r}) = {got!r}, expected {exp!r}"
