"""C18 - a recorded script replays to the same input events."""
import os
import random
import shutil
import struct
import tempfile

import common
import clientops
import proxyreal
from proxyreal import Proxy, key_event, pointer_event, viewer_handshake

from twisted.internet.defer import Deferred
from twisted.internet.task import Clock
from twisted.internet.testing import StringTransport

from vncdotool import client as vclient
from vncdotool import command
from vncdotool import loggingproxy as lp

TRUSTED_BASE = ["Model/Recorder.v (recorder formatting), Model/Shlex.v (shlex posix tokeniser + shlex.quote), Model/Command.v "
                "(build_command_list), Model/Keys.v (_decodeKey): hand-written; KEYMAP/REVERSE_MAP regenerated",
                "CPython text-mode file I/O (UTF-8, universal newlines) is the runtime, not modelled: the model is compared on the "
                "text the recorder wrote"]
ASSUMPTIONS = ["OPEN FINDING c18-file-newlines: keysym 0x0D (written as a raw CR, read back as LF by text-mode universal newlines), "
               "surrogate code points (cannot be written to a UTF-8 file) and keysyms above 0x10FFFF (chr() raises) are outside the "
               "main stream and re-confirmed by a dedicated case",
               "pointer positions are compared up to stuttering (a recorded click replays as press + release at the same position)",
               "a recorded pause is the number written in the script; the replayed pause must be >= that number / warp"]
EXTRA_VO = ["Proofs/CommandTieRecorder.vo", "Proofs/RecorderDispatchTie.vo"]

REV = dict(lp.REVERSE_MAP)


def representable(k):
    return k in REV or (k <= 0x10FFFF and k != 0x0D and not (0xD800 <= k <= 0xDFFF))


class TimedTransport(StringTransport):
    def __init__(self, clock, log):
        super().__init__()
        self.clock, self.log = clock, log

    def write(self, data):
        self.log.append((self.clock.seconds(), bytes(data)))

    def loseConnection(self):
        self.log.append((self.clock.seconds(), None))


def record(events, tmp, name="rec.vdo"):
    """events: (ticks, ('key', down, keysym) | ('ptr', mask, x, y)).  Runs the real proxy, the recorder writing to a
    text-mode file as vnclog does. -> (path, error)"""
    path = os.path.join(tmp, name)
    factory = lp.VNCLoggingServerFactory("server.example", 5900)
    out = open(path, "w")
    factory.output = out
    p = Proxy(factory=factory)
    err = None
    try:
        for h in viewer_handshake(b"003.008"):
            p.from_viewer(h)
        for t, e in events:
            p.set_ticks(t)
            data = (bytes.fromhex(e[1]) if isinstance(e[1], str) else e[1]) if e[0] == "raw" else key_event(e[1], e[2]) if e[0] == "key" else pointer_event(e[1], e[2], e[3])
            err = p.from_viewer(data)
            if err is not None:
                break
    finally:
        try:
            out.close()
        except Exception as e2:  # noqa: BLE001
            err = err or e2
    return path, err


def interleaved_recorders(camp, rng, tmp, n):
    """two vnclog recorders in one process (two viewers at the same time), every message split over two segments and the
    segments of the two viewers interleaved: each script replays its own viewer's events"""
    for i in range(n):
        clock = proxyreal.FakeTime()
        recs = []
        for name in ("a", "b"):
            path = os.path.join(tmp, "two_%s.vdo" % name)
            factory = lp.VNCLoggingServerFactory("server.example", 5900)
            out = open(path, "w")
            factory.output = out
            p = Proxy(factory=factory, clock=clock)
            evs = [(t, e) for t, e in gen_events(rng, rng.randrange(2, 12)) if e[0] != "raw"]
            recs.append([p, path, out, evs, None])
        err = None
        for p, *_ in recs:
            for h in viewer_handshake(b"003.008"):
                err = err or p.from_viewer(h)
        k = 0
        while err is None and any(k < len(r[3]) for r in recs):
            halves = []
            for r in recs:
                if k < len(r[3]):
                    t, e = r[3][k]
                    data = key_event(e[1], e[2]) if e[0] == "key" else pointer_event(e[1], e[2], e[3])
                    cut = rng.randrange(1, len(data))
                    halves.append((r, t, data[:cut], data[cut:]))
            for r, t, a, b in halves:
                err = err or r[0].from_viewer(a)
            for r, t, a, b in halves:
                r[0].set_ticks(t)
                err = err or r[0].from_viewer(b)
            k += 1
        for r in recs:
            r[2].close()
        camp.evaluations += 1
        camp.count("two-recorders-interleaved")
        camp.nontrivial.add(("two", i))
        why = f"recording raised {type(err).__name__}: {err}" if err is not None else None
        for r in recs:
            if why:
                break
            text = open(r[1], newline="").read()
            msgs, rerr = replay_script(r[1], 1.0)
            # times of the two viewers share one clock: judge events, order and positions (the gaps are judged elsewhere)
            why = rerr or judge(r[3], msgs, text, 1.0, gaps=False)
        if why:
            camp.oracle_failures.append({"kind": "oracle", "property": "C18", "case": {"events": [], "warp": 1.0, "two_recorders": True},
                                         "what": f"two recorders in one process, messages split and interleaved: {why}"})
            return


def replay_script(path, warp):
    """vncdo <path>: the real build_command_list on a real VNCDoCLIClient with a virtual clock.
    -> (timed messages [(t, msg)], error text or None)"""
    clock = Clock()
    vclient.reactor = clock
    command.reactor = clock
    log = []
    f = command.VNCDoCLIFactory()
    f.deferred = Deferred()
    try:
        command.build_command_list(f, [path], None, warp)
    except Exception as e:  # noqa: BLE001
        return [], f"build_command_list raised {type(e).__name__}: {e}"
    c = command.VNCDoCLIClient()
    c.factory = f
    c.makeConnection(TimedTransport(clock, log))
    failed = []
    f.deferred.addErrback(lambda fl: failed.append(fl))
    done = []
    f.deferred.addCallback(lambda r: done.append(1))
    f.deferred.callback(c)
    guard = 0
    while not done and not failed and guard < 10_000_000:
        calls = clock.getDelayedCalls()
        if not calls:
            break
        nxt = min(dc.getTime() for dc in calls)
        clock.advance(max(0.0, nxt - clock.seconds()))
        guard += 1
    if failed:
        return [], f"the script failed at run time: {failed[0].getErrorMessage()}"
    msgs = []
    for t, data in log:
        if data is None:
            continue
        parsed = clientops.parse_c2s(data)
        if parsed is None:
            return [], f"unparseable bytes written on replay: {data[:20].hex()}"
        for m in parsed:
            msgs.append((t, m))
    return msgs, None


def dedupe(seq):
    out = []
    for x in seq:
        if not out or out[-1] != x:
            out.append(x)
    return out


def judge(events, msgs, script_text, warp, gaps=True):
    check_gaps = gaps
    events = [(t, e) for t, e in events if e[0] != "raw"]        # other client messages leave no entry and move no clock
    keys_in = [(1 if e[1] else 0, e[2]) for _t, e in events if e[0] == "key"]
    keys_out = [(m[1], m[2]) for _t, m in msgs if m[0] == "KeyEvent"]
    if keys_in != keys_out:
        k = next((i for i, (a, b) in enumerate(zip(keys_in, keys_out)) if a != b), min(len(keys_in), len(keys_out)))
        return (f"key event #{k}: recorded {keys_in[k] if k < len(keys_in) else None}, replayed "
                f"{keys_out[k] if k < len(keys_out) else None} ({len(keys_in)} recorded, {len(keys_out)} replayed)")
    pos_in = dedupe([(e[2], e[3]) for _t, e in events if e[0] == "ptr"])
    pos_out = dedupe([(m[2], m[3]) for _t, m in msgs if m[0] == "PointerEvent"])
    if pos_in != pos_out:
        return f"pointer positions: recorded {pos_in[:6]}..., replayed {pos_out[:6]}..."
    # button presses: every pointer event with bit b set replays a press+release of b at that position
    clicks_in = [(b, e[2], e[3]) for _t, e in events if e[0] == "ptr" for b in range(1, 9) if e[1] & (1 << (b - 1))]
    clicks_out = [(m[1].bit_length(), m[2], m[3]) for _t, m in msgs if m[0] == "PointerEvent" and m[1] != 0]
    if clicks_in != clicks_out:
        return f"button presses: recorded {clicks_in[:5]}, replayed {clicks_out[:5]}"
    # pauses: line i starts with "pause G"; the first message of line i is emitted no earlier than sum(G_1..G_i)/warp
    gaps = []
    for line in script_text.split(" \n"):
        if line.startswith("pause "):
            gaps.append(float(line.split(" ")[1]))
    if len(gaps) != len(events):
        return f"{len(gaps)} pause entries for {len(events)} events"
    # "the recorded gap" is the time that passed between two recorded events (ticks of 0.1 ms: exact at four decimals)
    prev = 0
    for i, ((t, e), g) in enumerate(zip(events, gaps) if check_gaps else []):
        if abs(g - (t - prev) / 10000.0) > 5.1e-5:
            return (f"entry #{i} ({e[0]}): {(t - prev) / 10000.0:.4f} s passed since the previous recorded event, the script says "
                    f"pause {g:.4f}: the replay would not wait the original gap divided by the warp factor")
        prev = t
    # messages per entry: 1 for a key, (moved ? 1 : 0) + 2 per set button for a pointer event
    counts = []
    mouse = None
    for _t, e in events:
        if e[0] == "key":
            counts.append(1)
        else:
            moved = mouse != (e[2], e[3])
            mouse = (e[2], e[3])
            counts.append((1 if moved else 0) + 2 * bin(e[1] & 0xFF).count("1"))
    j = 0
    acc = 0.0
    for g, cnt in zip(gaps, counts):
        acc += g / warp
        for _ in range(cnt):
            if msgs[j][0] < acc - 1e-9:
                return (f"message #{j} {msgs[j][1]} replayed at {msgs[j][0]:.6f}s, before the recorded pauses up to it "
                        f"divided by warp {warp} ({acc:.6f}s)")
            j += 1
    return None


def gen_events(rng, n):
    evs = []
    t = 0
    pos = (0, 0)
    for _ in range(n):
        t += rng.choice([0, 1, 13, 250, 10000, 34567, 1250000])
        r = rng.random()
        if r < 0.55:
            k = rng.choice([rng.randrange(32, 127), rng.choice(list(REV)), rng.choice([35, 39, 34, 92, 32, 9, 10, 96, 36, 59, 38, 124, 42, 63]),
                            rng.randrange(0xA0, 0x3000), rng.choice([0x20AC, 0xFE03, 0xFF67, 0x1F600, 0xFFFF, 0x10FFFF, 1, 27, 127, 0x85, 0x2028])])
            if not representable(k):
                continue
            evs.append((t, ("key", rng.choice([0, 1, 0, 1, 2, 128, 255]), k)))
        else:
            if rng.random() < 0.5:
                pos = (rng.choice([0, 65535, rng.randrange(3000)]), rng.choice([0, 65535, rng.randrange(3000)]))
            mask = rng.choice([0, 0, 1, 2, 4, 5, 128, 255, rng.getrandbits(8)])
            evs.append((t, ("ptr", mask, pos[0], pos[1])))
        if rng.random() < 0.12:
            # what else a viewer says between two input events (some time after the last one)
            t += rng.choice([0, 40, 5000, 20000])
            n = rng.randrange(0, 5)
            evs.append((t, ("raw", rng.choice([
                struct.pack("!BxH", 2, n) + b"".join(struct.pack("!i", rng.choice([0, 1, 5, 16, -239, -223])) for _ in range(n)),
                struct.pack("!BBHHHH", 3, rng.randrange(2), 0, 0, rng.randrange(1, 2000), rng.randrange(1, 2000)),
                struct.pack("!BxxxI", 6, 3) + b"abc"]))))
    return evs


def model_script(model, events):
    """the Coq pipeline record -> shlex -> compile -> decode on the same events: returns (status, ops)"""
    req = []
    for t, e in events:
        req.append([0, t, e[1], e[2]] if e[0] == "key" else [1, t, e[1], e[2], e[3]])
    return model.call("c18_roundtrip", req)


def run(tier, seed, model):
    camp = common.Campaign()
    rng = random.Random(seed * 7919 + 18)
    tmp = tempfile.mkdtemp(prefix="c18-")
    try:
        cases = []
        # exhaustive sweeps of keysyms, in blocks
        hi = 0x10000 if tier == "quick" else 0x110000
        block = 4096
        for base in range(0, hi, block):
            ks = [k for k in range(base, min(base + block, hi)) if representable(k)]
            cases.append(("sweep", [(7 * (i + 1), ("key", (i + base) & 1, k)) for i, k in enumerate(ks)], 1.0))
        named = [(11 * (i + 1), ("key", i & 1, k)) for i, k in enumerate(sorted(REV))]
        cases.append(("named", named, 1.0))
        for _ in range(150 if tier == "quick" else 5000):
            cases.append(("mixed", gen_events(rng, rng.randrange(1, 60)), rng.choice([1.0, 1.0, 2.0, 0.5, 8.0, 3.0])))
        reqs, meta = [], []
        for ci, (kind, events, warp) in enumerate(cases):
            if not events:
                continue
            camp.evaluations += 1
            camp.count("case:" + kind)
            camp.count("key-events", sum(1 for _t, e in events if e[0] == "key"))
            camp.count("pointer-events", sum(1 for _t, e in events if e[0] == "ptr"))
            camp.count("other-client-messages", sum(1 for _t, e in events if e[0] == "raw"))
            camp.count("down-flag-not-0-or-1", sum(1 for _t, e in events if e[0] == "key" and e[1] > 1))
            camp.nontrivial.add((kind, ci))
            path, err = record(events, tmp, "rec%d.vdo" % (ci % 8))
            why = None
            if err is not None:
                why = f"recording raised {type(err).__name__}: {err}"
            else:
                text = open(path, newline="").read()
                msgs, rerr = replay_script(path, warp)
                why = rerr or judge(events, msgs, text, warp)
            if why:
                events = [(t, ("raw", e[1].hex()) if e[0] == "raw" else e) for t, e in events]
                small = events if len(events) <= 60 else None
                camp.oracle_failures.append({"kind": "oracle", "property": "C18",
                                             "case": {"events": small or events[:2000], "warp": warp},
                                             "what": f"{kind} session of {len(events)} events, warp {warp}: {why}"})
                if len(camp.oracle_failures) >= 3:
                    break
                continue
            if model is not None and kind != "sweep" or (model is not None and ci % 4 == 0):
                reqs.append(("c18_roundtrip", [[0, t, e[1], e[2]] if e[0] == "key" else [1, t, e[1], e[2], e[3]] for t, e in events if e[0] != "raw"]))
                meta.append((ci, kind, text))
        if model is not None:
            for ans, (ci, kind, text) in zip(model.call_many(reqs), meta):
                mtext = "".join(map(chr, ans[0]))
                if mtext != text:
                    k = next((i for i, (a, b) in enumerate(zip(mtext, text)) if a != b), min(len(mtext), len(text)))
                    camp.model_mismatches.append({"property": "C18", "case": {"case": ci, "kind": kind},
                                                  "what": f"case {ci} ({kind}): recorded script differs from the model's at character {k}: "
                                                          f"model {mtext[max(0, k - 20):k + 20]!r} vs vnclog {text[max(0, k - 20):k + 20]!r}"})
                elif ans[1] != 1:
                    camp.model_mismatches.append({"property": "C18", "case": {"case": ci, "kind": kind},
                                                  "what": f"case {ci} ({kind}): the model's own round trip (shlex, compile, decode) "
                                                          f"does not return the recorded events (status {ans[1]})"})
        if not camp.oracle_failures:
            interleaved_recorders(camp, rng, tmp, 10 if tier == "quick" else 300)
        findings(camp, tmp)
    finally:
        shutil.rmtree(tmp, ignore_errors=True)
    camp.exhaustive = True
    camp.rule = ("every representable keysym (quick: all of 0..0xFFFF; thorough: all of 0..0x10FFFF) recorded once by the real "
                 "VNCLoggingServerProxy into a text-mode script file, all documented key names, and random mixed sessions of key and "
                 "pointer events (any mask, edge coordinates, gaps 0..125 s); each script is compiled by the real build_command_list "
                 "from the file and run on a real VNCDoCLIClient under a virtual clock with warp in {0.5,1,2,3,8}; judged: key "
                 "events (down/up, keysym) identical, pointer positions identical up to stuttering, button presses, replayed time of "
                 "each message >= recorded pauses / warp; the recorded text and the Coq pipeline's round trip are compared with the "
                 "model; non-trivial = session")
    return camp


def findings(camp, tmp):
    bad = []
    for k, label in [(0x0D, "keysym 0x0D"), (0xD800, "a surrogate code point"), (0x110000, "keysym 0x110000")]:
        events = [(10, ("key", 1, k)), (20, ("key", 0, k))]
        path, err = record(events, tmp, "f.vdo")
        why = None
        if err is not None:
            why = f"recording raised {type(err).__name__}"
        else:
            msgs, rerr = replay_script(path, 1.0)
            why = rerr or judge(events, msgs, open(path, newline="").read(), 1.0)
        if why:
            bad.append(f"{label}: {why[:90]}")
    if bad:
        camp.known_hits.append("keys without a faithful script representation: " + "; ".join(bad) + " (finding c18-file-newlines)")


def replay(payload):
    case = payload["case"]
    if case.get("two_recorders"):
        return True, "replay: two-recorder scenario; re-run ./check C18"
    tmp = tempfile.mkdtemp(prefix="c18-")
    try:
        events = [(t, tuple(e)) for t, e in case["events"]]
        path, err = record(events, tmp)
        if err is not None:
            return False, f"replay: recording raised {err!r}"
        msgs, rerr = replay_script(path, case["warp"])
        why = rerr or judge(events, msgs, open(path, newline="").read(), case["warp"])
        return why is None, f"replay: {why or 'round trip ok'}"
    finally:
        shutil.rmtree(tmp, ignore_errors=True)
