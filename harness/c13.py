"""C13 - client and server always agree on pixel format and encodings."""
import random
import struct

import common
import rfbgen
import rfbreal
from rfbcamp import Batch, case_payload, cfg_from_payload, trim
from rfbreal import Cfg, run_real
import clientops

from vncdotool import client as vclient
from vncdotool import rfb

TRUSTED_BASE = ["Model/Rfb.v connection_made + Model/Image.v decode_pixels hand-written; PF2IM, RGB32, BGR16, SUPPORTED_ENCODINGS and "
                "the factory option defaults regenerated from the running code", "Pillow raw-mode unpackers (modelled, validated here)"]
ASSUMPTIONS = ["the preferred encoding is one the client can decode (a member of SUPPORTED_ENCODINGS)"]
EXTRA_VO = ["Proofs/RfbTieHandshake.vo"]

PF2IM = {tuple([p.bpp, p.depth, int(p.bigendian), int(p.truecolor), p.redmax, p.greenmax, p.bluemax, p.redshift, p.greenshift,
                p.blueshift]): m for p, m in vclient.PF2IM.items()}
SUPPORTED = {int(e) for e in rfb.RFBClient.SUPPORTED_ENCODINGS}


def pf_tuple(p):
    return (p.bpp, p.depth, int(p.bigendian), int(p.truecolor), p.redmax, p.greenmax, p.bluemax, p.redshift, p.greenshift, p.blueshift)


def judge(cfg, version, block, r):
    if r["final"][0] != "idle":
        return f"handshake with pixel-format block {block.hex()} ended {r['final'][:2]}"
    c = r["client"]
    native = struct.unpack("!BB??HHHBBBxxx", block)
    native = tuple(int(v) for v in native)
    pf = pf_tuple(c.pixel_format)
    msgs = clientops.parse_c2s(b"".join(e[1] for e in r["events"] if e[0] == "W")[12 + (1 if version >= (3, 7) else 0) + 1:])
    if msgs is None:
        return "client writes after ClientInit are not well-formed messages"
    setpf = [m for m in msgs if m[0] == "SetPixelFormat"]
    setenc = [m for m in msgs if m[0] == "SetEncodings"]
    if pf not in PF2IM:
        return f"pixel format in force {pf} is not one the client can render"
    if c.image_mode != PF2IM[pf]:
        return f"image mode {c.image_mode!r} does not belong to the format in force {pf} (should be {PF2IM[pf]!r})"
    if native in PF2IM:
        if pf != native or setpf:
            return f"native format {native} is renderable but the client uses {pf} / sent {len(setpf)} SetPixelFormat"
    else:
        want = rfbgen.BGR16 if version == (3, 889) else rfbgen.RGB32
        if len(setpf) != 1 or setpf[0][1] != want.block() or pf != tuple(int(v) for v in want.t):
            return (f"native format {native} is not renderable, server version {version}: expected one SetPixelFormat({want.t}), "
                    f"got {[m[1].hex() for m in setpf]} and format in force {pf}")
    exp = [cfg.encoding]
    if cfg.pseudocursor or cfg.nocursor:
        exp.append(-239)
    if cfg.pseudodesktop:
        exp.append(-223)
    if cfg.last_rect:
        exp.append(-224)
    if cfg.qemu:
        exp.append(-258)
    if len(setenc) != 1 or setenc[0][1] != exp:
        return f"SetEncodings {[m[1] for m in setenc]} but the options say {exp}"
    if not set(setenc[0][1]) <= SUPPORTED:
        return f"advertised encodings {setenc[0][1]} include one the client cannot decode"
    return None


def channel_cases(rng, tier):
    """pixel values of every accepted format: all 65536 values of the 16-bit one, structured + random samples of the others"""
    out = []
    for fmt in rfbgen.ACCEPTED:
        if fmt.bpp == 16:
            vals = list(range(65536))
        else:
            vals = [0, (1 << fmt.bpp) - 1]
            for sh in (fmt.rs, fmt.gs, fmt.bs):
                vals += [v << sh for v in range(256)]
            vals += [rng.getrandbits(fmt.bpp) for _ in range(2000 if tier == "quick" else 200000)]
        out.append((fmt, vals))
    return out


def run(tier, seed, model):
    camp = common.Campaign()
    rng = random.Random(seed * 7919 + 13)
    n = 700 if tier == "quick" else 20000
    batch = Batch(model, camp, "C13")
    blocks = [f.block() for f in rfbgen.ACCEPTED + rfbgen.UNACCEPTED]
    for i in range(n):
        r0 = rng.random()
        if r0 < 0.4:
            block = rng.choice(blocks)
        elif r0 < 0.8:
            b = bytearray(rng.choice(blocks))
            for _ in range(rng.choice([1, 1, 2])):
                b[rng.randrange(16)] = rng.choice([0, 1, 2, 8, 16, 24, 31, 32, 63, 255])
            block = bytes(b)
        else:
            block = bytes(rng.getrandbits(8) for _ in range(16))
        version = rng.choice(rfbgen.SUPPORTED + [(3, 889), (3, 889)])
        cfg = Cfg(variant=rng.choice([1, 1, 2]), pseudocursor=rng.random() < 0.5, nocursor=rng.random() < 0.5,
                  pseudodesktop=rng.random() < 0.5, last_rect=rng.random() < 0.5, qemu=rng.random() < 0.5,
                  encoding=rng.choice([0, 0, 2, 4, 5, 16, 1]))
        ver = rfbgen.negotiated(*version)
        hs = rfbgen.banner(*version)
        if ver < (3, 7):
            hs += struct.pack("!I", 1)
        elif ver < (3, 8):
            hs += b"\x01\x01"
        else:
            hs += b"\x01\x01\0\0\0\0"
        name = b"n" * rng.choice([0, 3])
        data = hs + struct.pack("!HH", 16, 16) + block + struct.pack("!I", len(name)) + name
        camp.evaluations += 1
        r = run_real(cfg, [data])
        camp.nontrivial.add((block, version, cfg.key()))
        camp.count("native-renderable" if tuple(int(v) for v in struct.unpack("!BB??HHHBBBxxx", block)) in PF2IM else "native-unrenderable")
        camp.count("apple-3.889" if version == (3, 889) else "other-version")
        why = judge(cfg, version, block, r)
        if why:
            camp.oracle_failures.append({"kind": "oracle", "property": "C13", "case": case_payload(cfg, [data]),
                                         "what": f"server {version}, options {cfg.pseudocursor, cfg.nocursor, cfg.pseudodesktop, cfg.last_rect, cfg.qemu}, "
                                                 f"preferred {cfg.encoding}: {why}"})
            if len(camp.oracle_failures) >= 3:
                break
        r.pop("client")
        batch.add(cfg, [data], [], r, False, "made")
        if len(camp.samples) < 5 and i % 131 == 0:
            camp.samples.append({"block": block.hex(), "version": list(version), "encoding": cfg.encoding})
    # channels: every accepted format maps wire bits to the right channels
    for fmt, vals in channel_cases(rng, tier):
        hs = b"RFB 003.008\n\x01\x01\0\0\0\0" + struct.pack("!HH16sI", 4, 4, fmt.block(), 0)
        W = 256
        for off in range(0, len(vals), W * 64):
            chunk = vals[off:off + W * 64]
            h = (len(chunk) + W - 1) // W
            chunk = chunk + [0] * (h * W - len(chunk))
            msg = b"\0\0\0\x01" + struct.pack("!HHHHi", 0, 0, W, h, 0) + b"".join(fmt.pix(v) for v in chunk)
            cfg = Cfg(variant=1, nocursor=True)
            r = run_real(cfg, [hs + msg])
            camp.evaluations += 1
            camp.count(f"channels-bpp{fmt.bpp}-rs{fmt.rs}", len(chunk))
            want = b"".join(bytes(fmt.rgb(v)) for v in chunk)
            got = r["screen"][1] if r["screen"] else None
            if got != want:
                idx = next((k for k in range(len(chunk)) if got is None or got[3 * k:3 * k + 3] != want[3 * k:3 * k + 3]), 0)
                camp.oracle_failures.append({"kind": "oracle", "property": "C13", "case": case_payload(cfg, [hs + msg]),
                                             "what": f"format {fmt.t}: pixel value {chunk[idx]:#x} shows as "
                                                     f"{None if got is None else tuple(got[3 * idx:3 * idx + 3])}, its channels are {fmt.rgb(chunk[idx])}"})
                break
            r.pop("client")
            if off == 0:
                batch.add(cfg, [hs + msg], [], r, True, "channels")
    announced_in_force(camp, rng, batch, 3 if tier == "quick" else 40)
    if not camp.oracle_failures:
        session_sequences(camp, rng, 12 if tier == "quick" else 300)
    if not camp.oracle_failures:
        command_line_switches(camp)
    if not camp.oracle_failures:
        cursor_in_force(camp, rng, 4 if tier == "quick" else 100)
    camp.exhaustive = False
    camp.extra["bgr16_all_65536_values"] = True
    batch.resolve(camp, "C13")
    camp.rule = ("ServerInit with pixel-format blocks (the 5 accepted, 6 unaccepted, 1-2 field mutations of those, random 16 bytes) x "
                 "server versions incl. Apple 3.889 x all 2^5 option combinations x preferred encodings, on the library and CLI "
                 "clients: format in force, image mode, SetPixelFormat and SetEncodings judged; then per accepted format raw updates "
                 "carrying every 16-bit value (BGR16, exhaustive) or each channel ramp + random values (24/32-bit) must show the "
                 "channel values; compared with the Coq model; non-trivial = distinct (block, version, options)")
    return camp


def announced_in_force(camp, rng, batch, rounds):
    """the server's native format cannot be rendered: the client announces RGB32 (BGR16 to an Apple 3.889 server); from then on
    the server sends pixels in THAT format, of another byte width than the native one - raw and RRE rectangles must be sized
    and coloured by it, and the Bell behind them must be seen (framing intact)"""
    for _ in range(rounds):
        for native in rfbgen.UNACCEPTED:
            for version in [(3, 8), (3, 3), (3, 889)]:
                announced = rfbgen.BGR16 if version == (3, 889) else rfbgen.RGB32
                ver = rfbgen.negotiated(*version)
                hs = rfbgen.banner(*version)
                hs += struct.pack("!I", 1) if ver < (3, 7) else (b"\x01\x01" if ver < (3, 8) else b"\x01\x01\0\0\0\0")
                hs += struct.pack("!HH", 4, 2) + native.block() + struct.pack("!I", 0)
                vals = [rng.getrandbits(announced.bpp) for _ in range(8)]
                bg, fg = rng.getrandbits(announced.bpp), rng.getrandbits(announced.bpp)
                msg = (b"\0\0\0\x01" + struct.pack("!HHHHi", 0, 0, 4, 2, 0) + b"".join(announced.pix(v) for v in vals)
                       + b"\0\0\0\x01" + struct.pack("!HHHHi", 1, 0, 2, 2, 2) + struct.pack("!I", 1) + announced.pix(bg)
                       + announced.pix(fg) + struct.pack("!HHHH", 1, 1, 1, 1)
                       + b"\x02")
                want = [announced.rgb(v) for v in vals]
                for (x, y) in [(1, 0), (2, 0), (1, 1)]:
                    want[y * 4 + x] = announced.rgb(bg)
                want[1 * 4 + 2] = announced.rgb(fg)
                want = b"".join(bytes(p) for p in want)
                data = hs + msg
                cut = rng.randrange(len(hs), len(data))
                for chunks in ([data], [data[:cut], data[cut:]]):
                    cfg = Cfg(variant=rng.choice([1, 2]), nocursor=True)
                    r = run_real(cfg, chunks)
                    camp.evaluations += 1
                    camp.count(f"announced-in-force:native-bpp{native.bpp}:{'apple' if version == (3, 889) else 'other'}")
                    camp.nontrivial.add(("announced", native.t, version, tuple(vals), len(chunks)))
                    got = r["screen"][1] if r["screen"] else None
                    why = None
                    if r["final"][0] != "idle" or r["final"][1] != 0:
                        why = f"the client ends {r['final'][:3]} (not idle at a message boundary)"
                    elif not r["events"] or r["events"][-1] != ("Bell",):
                        why = f"the Bell behind the update was not seen last (last events {trim(r['events'])[-2:]})"
                    elif got != want:
                        why = f"screen {None if got is None else got.hex()} differs from the colours sent {want.hex()}"
                    if why:
                        camp.oracle_failures.append({"kind": "oracle", "property": "C13", "case": case_payload(cfg, chunks),
                                                     "what": f"server {version} with native format {native.t}: after the client announced "
                                                             f"{announced.t}, a raw + RRE update in that format: {why}"})
                        return
                    r.pop("client")
                    batch.add(cfg, chunks, [], r, True, "announced")


def session_sequences(camp, rng, rounds, pid="C13"):
    """several sessions in one process (vncdotool.api, reconnects), to servers whose formats differ only in the channel order:
    the SAME wire bytes - as raw pixels and as RRE background / sub-rectangle colours painted into the existing screen -
    mean each session's own colours"""
    for _ in range(rounds):
        bpp = rng.choice([32, 32, 24]) if any(f.bpp == 24 for f in rfbgen.ACCEPTED) else 32
        fmts = [f for f in rfbgen.ACCEPTED if f.bpp == bpp]
        if len(fmts) < 2:
            continue
        vals = [rng.getrandbits(bpp) for _ in range(8)]
        bg, fg = rng.getrandbits(bpp), rng.getrandbits(bpp)
        order = [rng.choice(fmts) for _ in range(rng.randrange(2, 5))]
        if len(set(f.t for f in order)) < 2:
            order[-1] = next(f for f in fmts if f.t != order[0].t)
        for k, fmt in enumerate(order):
            hs = b"RFB 003.008\n\x01\x01\0\0\0\0" + struct.pack("!HH16sI", 4, 2, fmt.block(), 0)
            msg = (b"\0\0\0\x01" + struct.pack("!HHHHi", 0, 0, 4, 2, 0) + b"".join(fmt.pix(v) for v in vals)
                   + b"\0\0\0\x01" + struct.pack("!HHHHi", 1, 0, 2, 2, 2) + struct.pack("!I", 1) + fmt.pix(bg)
                   + fmt.pix(fg) + struct.pack("!HHHH", 1, 1, 1, 1)
                   + b"\x02")
            want = [fmt.rgb(v) for v in vals]
            for (x, y) in [(1, 0), (2, 0), (1, 1)]:
                want[y * 4 + x] = fmt.rgb(bg)
            want[1 * 4 + 2] = fmt.rgb(fg)
            want = b"".join(bytes(p_) for p_ in want)
            cfg = Cfg(variant=rng.choice([1, 2]), nocursor=True)
            r = run_real(cfg, [hs + msg])
            camp.evaluations += 1
            camp.count(f"session-sequence:bpp{bpp}:position{min(k, 3)}")
            camp.nontrivial.add(("sequence", tuple(f.t for f in order[:k + 1]), tuple(vals), bg, fg))
            got = r["screen"][1] if r["screen"] else None
            if r["final"][0] != "idle" or got != want:
                camp.oracle_failures.append({"kind": "oracle", "property": pid, "case": case_payload(cfg, [hs + msg]),
                                             "what": f"session #{k + 1} of one process (formats so far {[f.t for f in order[:k + 1]]}): a raw + RRE update in this "
                                                     f"session's format {fmt.t}: the client ends {r['final'][:2]}, screen "
                                                     f"{None if got is None else got.hex()}, the colours sent are {want.hex()}"})
                return


def command_line_switches(camp):
    """the switches of the vncdo command line, through the real option parser and the real option-to-factory code
    (cliopts.run_vncdo), then the real handshake on that factory: SetEncodings follows the switches"""
    import itertools
    import cliopts
    from twisted.internet.testing import StringTransport
    names = ["--localcursor", "--nocursor", "--disable-desktop-resizing", "--force-caps"]
    for combo in itertools.product([False, True], repeat=4):
        argv = [n for n, on in zip(names, combo) if on] + ["key", "a"]
        g = cliopts.run_vncdo(argv)
        camp.evaluations += 1
        camp.count("command-line-switches")
        camp.nontrivial.add(("switches", combo))
        why = None
        if g["factory"] is None or g["raised"] is not None:
            why = f"vncdo did not get as far as the factory (exit {g['exit']}, raised {g['raised']!r})"
        else:
            f = g["factory"]
            c = f.buildProtocol(None)
            tr = StringTransport()
            c.makeConnection(tr)
            c.dataReceived(b"RFB 003.008\n\x01\x01\0\0\0\0")
            tr.clear()
            c.dataReceived(struct.pack("!HH16sI", 4, 4, rfbgen.RGB32.block(), 0))
            msgs = clientops.parse_c2s(tr.value()) or []
            setenc = [m[1] for m in msgs if m[0] == "SetEncodings"]
            exp = [0] + ([-239] if (combo[0] or combo[1]) else []) + ([] if combo[2] else [-223]) + [-224, -258]
            if setenc != [exp]:
                why = f"SetEncodings {setenc}, the switches say {exp}"
            elif bool(getattr(f, "force_caps", False)) != combo[3]:
                why = f"force_caps is {getattr(f, 'force_caps', None)!r} on the factory"
        if why:
            camp.oracle_failures.append({"kind": "oracle", "property": "C13", "case": {"argv": argv, "command_line": True},
                                         "what": f"vncdo {' '.join(argv)}: {why}"})
            return


def cursor_in_force(camp, rng, rounds):
    """cursor-shape rectangles carry pixels in the format in force too: with --localcursor the shape painted on the
    screen (hot spot 0,0, pointer at 0,0, full mask) shows the colours that were sent, for every accepted format and for
    the announced one after an unrenderable native format"""
    cases = [(f, (3, 8), f) for f in rfbgen.ACCEPTED] + [(rfbgen.UNACCEPTED[0], (3, 8), rfbgen.RGB32), (rfbgen.UNACCEPTED[0], (3, 889), rfbgen.BGR16)]
    for _ in range(rounds):
        for native, version, inforce in cases:
            hs = rfbgen.banner(*version) + b"\x01\x01\0\0\0\0" + struct.pack("!HH16sI", 4, 3, native.block(), 0)
            bgv = rng.getrandbits(inforce.bpp)
            vals = [rng.getrandbits(inforce.bpp) for _ in range(4)]
            msg = (b"\0\0\0\x01" + struct.pack("!HHHHi", 0, 0, 4, 3, 0) + inforce.pix(bgv) * 12
                   + b"\0\0\0\x01" + struct.pack("!HHHHi", 0, 0, 2, 2, -239) + b"".join(inforce.pix(v) for v in vals) + b"\xc0\xc0"
                   + b"\x02")
            want = [inforce.rgb(bgv)] * 12
            for k, (x, y) in enumerate([(0, 0), (1, 0), (0, 1), (1, 1)]):
                want[y * 4 + x] = inforce.rgb(vals[k])
            want = b"".join(bytes(p_) for p_ in want)
            cfg = Cfg(variant=rng.choice([1, 2]), pseudocursor=True, nocursor=False)
            r = run_real(cfg, [hs + msg])
            camp.evaluations += 1
            camp.count(f"cursor-in-force:bpp{inforce.bpp}")
            camp.nontrivial.add(("cursor", native.t, version, bgv, tuple(vals)))
            got = r["screen"][1] if r["screen"] else None
            if r["final"][0] != "idle" or got != want:
                camp.oracle_failures.append({"kind": "oracle", "property": "C13", "case": case_payload(cfg, [hs + msg]),
                                             "what": f"--localcursor, server {version} native {native.t}, format in force {inforce.t}: a 2x2 cursor shape with "
                                                     f"full mask at the pointer (0,0): the client ends {r['final'][:2]}, screen "
                                                     f"{None if got is None else got.hex()}, expected {want.hex()}"})
                return


def replay(payload):
    if payload.get("case", {}).get("command_line"):
        return True, "replay: command-line scenario; re-run ./check C13"
    case = payload["case"]
    cfg = cfg_from_payload(case["cfg"])
    chunks = [bytes.fromhex(c) for c in case["chunks"]]
    r = run_real(cfg, chunks)
    c = r["client"]
    return True, f"replay: format in force {pf_tuple(c.pixel_format)}, mode {c.image_mode}, events {trim(r['events'])[:6]}"
