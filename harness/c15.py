"""C15 - no server input can make the client spin."""
import random
import struct

import common
import rfbgen
import rfbreal
from rfbcamp import Batch, case_payload, cfg_from_payload
from guarded import GuardedRunner
from rfbreal import Cfg, run_real

TRUSTED_BASE = ["Model/Engine.v + Model/Rfb.v (handler family) hand-written; formats and expect graph regenerated",
                "handler invocations of the real client are counted by wrapping the handlers passed to expect()",
                "zlib inflate is an oracle tape; work inside zlib and pixel expansion of fills (w*h pixels from a few bytes) "
                "are outside the bound, as RFB defines them"]
ASSUMPTIONS = ["bytes are 0..255", "the bound is on handler invocations: n <= 3*len(stream) + 4; loops inside handlers are "
               "structural recursions over the received block / the inflated tile stream"]
EXTRA_VO = ["Proofs/RfbTieHandshake.vo", "Proofs/RfbTieMessages.vo"]


def mutate(rng, s, data):
    """grammar-derived hostile variants: a length/count field forced to 0, 1 or its maximum, truncation, noise"""
    data = bytearray(data)
    kind = rng.choice(["zero-len", "one-len", "max-len", "truncate", "noise-tail", "flip-type", "as-is"])
    if kind in ("zero-len", "one-len", "max-len") and s.boundaries:
        # pick a boundary and overwrite the 1..4 bytes before the following field group with 0 / 1 / ff
        b = rng.choice(s.boundaries[1:] or [0])
        width = rng.choice([1, 2, 4])
        v = {"zero-len": 0, "one-len": 1, "max-len": rng.choice([0xFF, 0xFFFF, 0x7FFFFFFF, 0xFFFFFFFF])}[kind]
        lo = max(0, b - width)
        enc = (v & ((1 << (8 * (b - lo))) - 1)).to_bytes(b - lo, "big") if b > lo else b""
        data[lo:b] = enc
    elif kind == "truncate" and len(data) > 1:
        data = data[:rng.randrange(1, len(data))]
    elif kind == "noise-tail":
        alphabet = bytes([0, 1, 2, 3, 5, 16]) if rng.random() < 0.7 else bytes(range(6))
        data += bytes(rng.choice(alphabet) for _ in range(rng.choice([1, 5, 40, 300])))
    elif kind == "flip-type" and s.boundaries:
        b = rng.choice(s.boundaries)
        if b < len(data):
            data[b] = rng.choice([0, 1, 2, 3, 4, 255])
    return kind, bytes(data)


def handcrafted():
    """every zero-length field of the grammar, explicitly"""
    pf = rfbgen.RGB32.block()
    hs38 = b"RFB 003.008\n\x01\x01\0\0\0\0"
    init0 = struct.pack("!HH16sI", 4, 4, pf, 0)               # empty desktop name
    out = [
        ("empty-refusal-3.8", b"RFB 003.008\n\x00\0\0\0\0"),
        ("empty-refusal-3.7", b"RFB 003.007\n\x00\0\0\0\0"),
        ("empty-refusal-3.3", b"RFB 003.003\n\0\0\0\0\0\0\0\0"),
        ("empty-failure-3.8-none", b"RFB 003.008\n\x01\x01\0\0\0\x01\0\0\0\0"),
        ("empty-failure-3.8-toomany", b"RFB 003.008\n\x01\x01\0\0\0\x02\0\0\0\0"),
        ("empty-failure-3.8-vnc", b"RFB 003.008\n\x01\x02" + b"c" * 16 + b"\0\0\0\x01\0\0\0\0"),
        ("empty-name", hs38 + init0),
        ("empty-cuttext", hs38 + init0 + b"\x03\0\0\0\0\0\0\0"),
        ("zero-colours", hs38 + init0 + b"\x01\0\0\0\0\0"),
        ("zero-rects", hs38 + init0 + b"\0\0\0\0"),
        ("zero-area-raw", hs38 + init0 + b"\0\0\0\x01" + struct.pack("!HHHHi", 1, 1, 0, 5, 0)),
        ("zero-subrects-rre", hs38 + init0 + b"\0\0\0\x01" + struct.pack("!HHHHi", 0, 0, 2, 2, 2) + b"\0\0\0\0abcd"),
        ("zero-subrects-corre", hs38 + init0 + b"\0\0\0\x01" + struct.pack("!HHHHi", 0, 0, 2, 2, 4) + b"\0\0\0\0abcd"),
        ("empty-zrle-block", hs38 + init0 + b"\0\0\0\x01" + struct.pack("!HHHHi", 0, 0, 2, 2, 16) + b"\0\0\0\0"),
        ("zero-width-hextile", hs38 + init0 + b"\0\0\0\x01" + struct.pack("!HHHHi", 0, 0, 0, 40, 5) + b"\x01\x01\x01"),
        ("zero-height-hextile", hs38 + init0 + b"\0\0\0\x01" + struct.pack("!HHHHi", 0, 0, 40, 0, 5)),
        ("zero-cursor", hs38 + init0 + b"\0\0\0\x01" + struct.pack("!HHHHi", 0, 0, 0, 0, -239)),
        ("dh-keylen-0", b"RFB 003.008\n\x01\x1e" + struct.pack("!HH", 2, 0)),
        ("dh-keylen-0-then-result", b"RFB 003.008\n\x01\x1e" + struct.pack("!HH", 2, 0) + b"\0\0\0\0"),
        ("many-bells", hs38 + init0 + b"\x02" * 500),
        ("lastrect-only", hs38 + init0 + b"\0\0\xff\xff" + struct.pack("!HHHHi", 0, 0, 0, 0, -224)),
        ("unknown-messages", hs38 + init0 + bytes(range(4, 60))),
    ]
    # zero-length fields after the decoder state has changed: the connection-wide zlib stream of ZRLE
    import zlib

    def zrle_rect(payload):
        return b"\0\0\0\x01" + struct.pack("!HHHHi", 0, 0, 2, 2, 16) + struct.pack("!I", len(payload)) + payload
    tile = b"\x01\x10\x20\x30"                      # one solid 2x2 tile
    co = zlib.compressobj()
    synced = co.compress(tile) + co.flush(zlib.Z_SYNC_FLUSH)
    synced2 = co.compress(tile) + co.flush(zlib.Z_SYNC_FLUSH)
    finished = zlib.compress(tile)                  # Z_FINISH: the stream ends here (no real server does that)
    out += [
        ("zrle-synced-then-empty", hs38 + init0 + zrle_rect(synced) + zrle_rect(b"") + b"\x02"),
        ("zrle-empty-then-synced", hs38 + init0 + zrle_rect(b"") + zrle_rect(synced) + b"\x02"),
        ("zrle-finished-then-empty", hs38 + init0 + zrle_rect(finished) + zrle_rect(b"") + b"\x02"),
        ("zrle-finished-then-empty-twice", hs38 + init0 + zrle_rect(finished) + zrle_rect(b"") + zrle_rect(b"") + b"\x02"),
        ("zrle-finished-then-more", hs38 + init0 + zrle_rect(finished) + zrle_rect(synced) + b"\x02"),
        ("zrle-two-synced-then-empty", hs38 + init0 + zrle_rect(synced) + zrle_rect(synced2) + zrle_rect(b"") + b"\x02"),
        ("zrle-garbage-then-empty", hs38 + init0 + zrle_rect(b"\xff\xfe\xfd") + zrle_rect(b"") + b"\x02"),
    ]
    return out


def run(tier, seed, model):
    camp = common.Campaign()
    rng = random.Random(seed * 7919 + 15)
    n = 500 if tier == "quick" else 12000
    batch = Batch(model, camp, "C15")
    guard = GuardedRunner(timeout=20)
    streams = [(name, 0, None, data) for name, data in handcrafted()]
    streams += [(name, 1, "pw", data) for name, data in handcrafted()]
    for i in range(n):
        variant = rng.choice([0, 0, 1, 2])
        pw = rng.choice([None, "pw"])
        s = rfbgen.gen_session(rng, variant, pw, want_success=(rng.random() < 0.7))
        kind, data = mutate(rng, s, bytes(s.data))
        streams.append((kind, variant, pw, data))
    try:
        for idx, (kind, variant, pw, data) in enumerate(streams):
            cfg = Cfg(variant=variant, password=pw, username="u")
            camp.count(kind)
            chunkings = [[data]]
            if len(data) <= 300:
                chunkings.append([data[i:i + 1] for i in range(len(data))])
            if len(data) > 2:
                c = rng.randrange(1, len(data))
                chunkings.append([data[:c], data[c:]])
            tape = None
            for chunks in chunkings:
                camp.evaluations += 1
                bound = 3 * len(data) + 3
                status, r = guard.run(cfg, chunks, bound)
                if status == "memory":
                    # the long-lived worker has a limited address space that earlier giant rectangles may have used up:
                    # only exhaustion in a FRESH worker says something about this input
                    guard.restart()
                    camp.count("worker-restarted-after-memory-error")
                    status, r = guard.run(cfg, chunks, bound)
                why = None
                if status == "timeout":
                    why = "no return within 20 s (a handler or the expect loop does not end)"
                elif status == "memory":
                    why = "memory exhausted while processing (unbounded work inside a handler)"
                elif status == "error":
                    why = "worker failed: " + str(r)
                elif r["final"][0] == "crashed" and "watchdog" in str(r["final"][1]):
                    why = f"more than 3*len+3 = {bound} handler invocations"
                if why:
                    camp.oracle_failures.append({"kind": "oracle", "property": "C15",
                                                 "case": case_payload(cfg, chunks, {"kind": kind}),
                                                 "what": f"processing {len(data)} bytes ({kind}, {len(chunks)} chunk(s)): {why}"})
                    break
                if r["final"][0] == "crashed" and str(r["final"][1]).startswith("MemoryError"):
                    # pixel expansion of a giant fill/raw rectangle (w*h pixels from a few bytes): what RFB
                    # means by a fill, excluded from the bound; the child's address space is limited
                    camp.count("excluded-pixel-expansion")
                    guard.restart()
                    continue
                camp.nontrivial.add((kind, data[:64], len(chunks)))
                if tape is None:
                    tape = r["tape"]
                batch.add(cfg, chunks, tape, r, False, kind)
            if len(camp.samples) < 6 and idx % 97 == 0:
                camp.samples.append({"kind": kind, "variant": variant, "bytes": len(data), "head": data[:40].hex()})
            if len(camp.oracle_failures) >= 3:
                break
    finally:
        guard.close()
    batch.resolve(camp, "C15")
    if not camp.oracle_failures:
        with_waiters(camp, rng)
    if not camp.oracle_failures:
        scaling(camp)
    camp.rule = ("22 hand-written streams covering every zero-length field of the grammar (x base and library client) plus "
                 "grammar-derived sessions with one length/count field forced to 0/1/max, truncations, noise tails and flipped "
                 "message types, each delivered whole, byte-at-a-time (<=300 B) and with one random cut; the real client runs in a "
                 "child process (3 GB address space, 20 s) with a handler-invocation limit of 3*len+3 (the bound of the theorem); "
                 "invocation counts compared with the extracted model; non-trivial = distinct (kind, stream prefix, chunking); plus a "
                 "scaling measurement: CPU time of four times the bytes (many small messages in one chunk; one big rectangle in 64-byte "
                 "chunks) must stay below 8x the time of the bytes + 0.4 s - work proportional to the bytes received, not to their square")
    return camp


def _waiter_child(conn, kind, chunks):
    import io
    import struct
    from PIL import Image
    from twisted.internet.testing import StringTransport
    from vncdotool import client as vclient
    import clientops
    import tempfile
    c = vclient.VNCDoToolClient()
    c.factory = vclient.VNCDoToolFactory()
    c.factory.nocursor = True
    tr = StringTransport()
    c.makeConnection(tr)
    c.dataReceived(b"RFB 003.008\n\x01\x01\0\0\0\0" + struct.pack("!HH16sI", 4, 3, bytes([32, 24, 0, 1, 0, 255, 0, 255, 0, 255, 0, 8, 16, 0, 0, 0]), 0))
    tr.clear()
    if kind == "expect":
        f = tempfile.NamedTemporaryFile(suffix=".png", delete=False)
        Image.new("RGB", (4, 3), (1, 2, 3)).save(f.name)
        c.expectScreen(f.name, 0)
    elif kind == "capture":
        c.captureScreen(io.BytesIO(), format="png")
    else:
        c.refreshScreen()
    for ch in chunks:
        c.dataReceived(ch)
    msgs = clientops.parse_c2s(tr.value()) or []
    conn.send(sum(1 for m in msgs if m[0] == "FbUpdateRequest"))


def with_waiters(camp, rng):
    """processing an update also runs whoever waits for it (a capture, a refresh, an expect whose image is not there yet
    and asks again): with one, two, five updates in one chunk or byte by byte it still returns, having asked at most once
    per update received"""
    import multiprocessing as mp
    import struct
    ctx = mp.get_context("fork")
    for kind in ("expect", "capture", "refresh"):
        for nupd in (1, 2, 5):
            upd = b"".join(b"\0\0\0\x01" + struct.pack("!HHHHi", 0, 0, 4, 3, 0) + bytes([rng.getrandbits(8), 7, 9, 0]) * 12 for _ in range(nupd))
            for chunks in ([upd], [upd[j:j + 1] for j in range(len(upd))]):
                parent, child = ctx.Pipe()
                pr = ctx.Process(target=_waiter_child, args=(child, kind, chunks), daemon=True)
                pr.start()
                child.close()
                got = parent.recv() if parent.poll(15) else None
                if got is None:
                    pr.kill()
                pr.join(5)
                camp.evaluations += 1
                camp.count("with-waiter:" + kind)
                camp.nontrivial.add(("waiter", kind, nupd, len(chunks)))
                why = None
                if got is None:
                    why = "dataReceived did not return within 15 s"
                elif got > 1 + nupd:
                    why = f"{got} update requests were written for {nupd} update(s)"
                if why:
                    camp.oracle_failures.append({"kind": "oracle", "property": "C15", "case": {"scaling": True, "waiter": kind},
                                                 "what": f"a pending {kind} and {nupd} update(s) of 4x3 pixels in {len(chunks)} chunk(s): {why}"})
                    return


def scaling(camp):
    """work proportional to the bytes received: the same kind of stream, four times as long, may cost about four times as much
    (quadratic buffer handling costs sixteen times); CPU time, generous constants, so that load cannot raise a false alarm"""
    import time as _t
    hs = b"RFB 003.008\n\x01\x01\0\0\0\0" + struct.pack("!HH16sI", 1024, 1024, rfbgen.RGB32.block(), 0)

    def bells(n):
        return [hs + b"\x02" * n]

    def raw64(n_pixels):
        w = 1024
        h = n_pixels // w
        body = b"\0\0\0\x01" + struct.pack("!HHHHi", 0, 0, w, h, 0) + bytes(4 * w * h)
        data = hs + body + b"\x02"
        return [data[i:i + 64] for i in range(0, len(data), 64)]
    def rre(n_subs):
        body = b"\0\0\0\x01" + struct.pack("!HHHHi", 0, 0, 64, 64, 2) + struct.pack("!I", n_subs) + b"\1\2\3\0"
        body += (b"\4\5\6\0" + struct.pack("!HHHH", 1, 1, 2, 2)) * n_subs
        data = hs + body + b"\x02"
        return [data[i:i + 65536] for i in range(0, len(data), 65536)]
    for name, make, small in (("many one-byte messages in one chunk", bells, 100_000), ("one raw rectangle in 64-byte chunks", raw64, 150 * 1024),
                              ("one RRE rectangle with a long subrectangle table", rre, 20_000)):
        times = []
        for n in (small, 4 * small):
            chunks = make(n)
            cfg = Cfg(variant=0)
            t0 = _t.process_time()
            r = run_real(cfg, chunks)
            times.append(_t.process_time() - t0)
            if r["final"][0] != "idle":
                camp.oracle_failures.append({"kind": "oracle", "property": "C15", "case": {"scaling": name, "n": n},
                                             "what": f"scaling workload '{name}' ({n}): the client ended {r['final'][:2]}"})
                return
        camp.evaluations += 2
        camp.count("scaling-workload", 2)
        camp.nontrivial.add(("scaling", name))
        camp.extra.setdefault("scaling_cpu_s", {})[name] = [round(t, 3) for t in times]
        if times[1] > 8 * times[0] + 0.4:
            camp.oracle_failures.append({"kind": "oracle", "property": "C15", "case": {"scaling": name, "n": [small, 4 * small]},
                                         "what": f"{name}: {small} units cost {times[0]:.2f} s of CPU, {4 * small} units cost {times[1]:.2f} s "
                                                 f"(more than 8x + 0.4 s): the work is not proportional to the bytes received"})
            return


def replay(payload):
    case = payload["case"]
    if "scaling" in case:
        return True, "replay: scaling measurement; re-run ./check C15"
    cfg = cfg_from_payload(case["cfg"])
    chunks = [bytes.fromhex(c) for c in case["chunks"]]
    n = sum(len(c) for c in chunks)
    guard = GuardedRunner(timeout=20)
    try:
        status, r = guard.run(cfg, chunks, 3 * n + 3)
    finally:
        guard.close()
    bad = status != "ok" or (r["final"][0] == "crashed" and "watchdog" in str(r["final"][1]))
    return (not bad), ("replay: terminates within the bound" if not bad else f"replay: still fails ({status})")
