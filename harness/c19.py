"""C19 - everything the client sends is a well-formed RFB client message."""
import random

import clientops
import common

TRUSTED_BASE = ["Spec/C2S.v: RFC 6143 §7.5 parser written by hand from the RFC",
                "Model/ClientMsgs.v, ClientOps.v hand-written; wire formats regenerated (Gen/Formats.v)"]
ASSUMPTIONS = ["arguments in range (coordinates/sizes 0..65535, keysyms < 2^32, masks 0..255, Latin-1 text)",
               "Twisted transport.write delivers the bytes it is given"]


def run(tier, seed, model):
    camp = common.Campaign()
    rng = random.Random(seed * 7919 + 19)
    n = 400 if tier == "quick" else 8000
    camp.rule = ("random operation histories (1..40 ops over the 15 library operations, mostly in-range, boundary-biased "
                 "arguments) run on the real VNCDoToolClient over an in-memory transport; bytes parsed by an independent "
                 "RFC 6143 parser and compared with the spec state, and with the extracted Coq model; non-trivial = "
                 "history containing at least one in-domain operation; distinct by full history")
    clientops.run_campaign(camp, model, rng, n, clientops.ALL_KINDS, 40, "C19")
    return camp


def replay(payload):
    return clientops.replay_case(payload["case"], "C19")
