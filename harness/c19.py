"""C19 - everything the client sends is a well-formed RFB client message."""
import random

import clientops
import common

TRUSTED_BASE = ["Spec/C2S.v: RFC 6143 §7.5 parser written by hand from the RFC",
                "Model/ClientMsgs.v, ClientOps.v hand-written; wire formats regenerated (Gen/Formats.v)"]
ASSUMPTIONS = ["arguments in range (coordinates/sizes 0..65535, keysyms < 2^32, masks 0..255, Latin-1 text)",
               "Twisted transport.write delivers the bytes it is given"]


def run(tier, seed, model):
    camp = common.Campaign()
    rng = random.Random(seed * 7919 + 19)
    n = 400 if tier == "quick" else 8000
    camp.rule = ("random operation histories (1..40 ops over the 15 library operations, mostly in-range, boundary-biased "
                 "arguments) run on the real VNCDoToolClient over an in-memory transport; bytes parsed by an independent "
                 "RFC 6143 parser and compared with the spec state, and with the extracted Coq model; non-trivial = "
                 "history containing at least one in-domain operation; distinct by full history")
    # (forced caps - which extra key events a capital stands for - is C04's subject: not judged here)
    clientops.run_campaign(camp, model, rng, n, clientops.ALL_KINDS, 40, "C19", force_caps_choices=(False,))
    # every Latin-1 character, alone and all 256 together: pasted text arrives as its Latin-1 bytes
    ops = [("paste", chr(i)) for i in range(256)] + [("paste", "".join(chr(i) for i in range(256)) * 3)]
    real, _final = clientops.run_real(8, 8, False, False, ops)
    for op, got in zip(ops, real):
        camp.evaluations += 1
        camp.count("latin1-sweep")
        want = [("ClientCutText", op[1].encode("latin-1"))]
        parsed = clientops.parse_c2s(got) if got is not None else None
        if parsed != want:
            camp.oracle_failures.append({"kind": "oracle", "property": "C19",
                                         "case": {"width": 8, "height": 8, "force_caps": False, "has_screen": False, "ops": [list(op)]},
                                         "what": f"paste of {op[1][:8]!r} ({len(op[1])} Latin-1 character(s)): expected {str(want)[:80]}, client wrote "
                                                 f"{'an exception' if parsed is None else str(parsed)[:80]}"})
            break
    camp.nontrivial.add("latin1-sweep")
    if not camp.oracle_failures:
        after_server_events(camp, rng, 40 if tier == "quick" else 1000)
    return camp


def after_server_events(camp, rng, n):
    """sessions on the wire: ServerInit, then desktop-size announcements / updates from the server between the client's
    operations; the fields of every message the client writes afterwards (update requests with default and explicit
    geometry, pointer and key events) are those of the state the conversation has reached"""
    import struct
    from twisted.internet.testing import StringTransport
    from vncdotool import client as vclient
    for i in range(n):
        cls = rng.choice([vclient.VNCDoToolClient, vclient.VNCDoToolClient, vclient.VMWareClient])
        c = cls()
        c.factory = vclient.VNCDoToolFactory()
        c.factory.nocursor = True
        tr = StringTransport()
        c.makeConnection(tr)
        w, h = rng.choice([8, 640, 1024]), rng.choice([6, 480, 768])
        c.dataReceived(b"RFB 003.008\n\x01\x01\0\0\0\0" + struct.pack("!HH16sI", w, h, bytes([32, 24, 0, 1, 0, 255, 0, 255, 0, 255, 0, 8, 16, 0, 0, 0]), 0))
        camp.evaluations += 1
        camp.count("after-server-events")
        camp.nontrivial.add(("wire-session", i))
        for k in range(rng.randrange(2, 8)):
            r = rng.random()
            tr.clear()
            if r < 0.35:
                w, h = rng.choice([1, 8, 320, 1280, 65535]), rng.choice([1, 6, 200, 1024, 65535])
                if w * h > 4_000_000:
                    w, h = 1280, 1024
                c.dataReceived(b"\0\0\0\x01" + struct.pack("!HHHHi", 0, 0, w, h, -223))
                continue
            if r < 0.45:
                c.dataReceived(b"\x02")
                continue
            x, y = rng.randrange(0, w), rng.randrange(0, h)
            kind = rng.choice(["refresh", "refresh-inc", "request-xy", "request-default", "move", "key"])
            try:
                if kind == "refresh":
                    c.refreshScreen(False)
                    c.deferred = None
                    want = [("FbUpdateRequest", 0, 0, 0, w, h)]
                elif kind == "refresh-inc":
                    c.refreshScreen(True)
                    c.deferred = None
                    want = [("FbUpdateRequest", 1, 0, 0, w, h)]
                elif kind == "request-xy":
                    c.framebufferUpdateRequest(x, y)
                    want = [("FbUpdateRequest", 0, x, y, w - x, h - y)]
                elif kind == "request-default":
                    c.framebufferUpdateRequest(incremental=True)
                    want = [("FbUpdateRequest", 1, 0, 0, w, h)]
                elif kind == "move":
                    c.mouseMove(x, y)
                    want = [("PointerEvent", 0, x, y)]
                else:
                    c.keyPress("a")
                    want = [("KeyEvent", 1, 97), ("KeyEvent", 0, 97)]
                got = clientops.parse_c2s(tr.value())
            except Exception as e:  # noqa: BLE001
                got = f"raised {type(e).__name__}: {e}"
            if got != want:
                camp.oracle_failures.append({"kind": "oracle", "property": "C19", "case": {"wire_session": i},
                                             "what": f"{cls.__name__}, desktop now {w}x{h} (announced by the server), operation {kind} at ({x},{y}): "
                                                     f"expected {want}, client wrote {got}"})
                return


def replay(payload):
    if "wire_session" in payload.get("case", {}):
        return True, "replay: wire session; re-run ./check C19"
    return clientops.replay_case(payload["case"], "C19")
