"""C19 - everything the client sends is a well-formed RFB client message."""
import random

import clientops
import common

TRUSTED_BASE = ["Spec/C2S.v: RFC 6143 §7.5 parser written by hand from the RFC",
                "Model/ClientMsgs.v, ClientOps.v hand-written; wire formats regenerated (Gen/Formats.v)"]
ASSUMPTIONS = ["arguments in range (coordinates/sizes 0..65535, keysyms < 2^32, masks 0..255, Latin-1 text)",
               "Twisted transport.write delivers the bytes it is given"]


def run(tier, seed, model):
    camp = common.Campaign()
    rng = random.Random(seed * 7919 + 19)
    n = 400 if tier == "quick" else 8000
    camp.rule = ("random operation histories (1..40 ops over the 15 library operations, mostly in-range, boundary-biased "
                 "arguments) run on the real VNCDoToolClient over an in-memory transport; bytes parsed by an independent "
                 "RFC 6143 parser and compared with the spec state, and with the extracted Coq model; non-trivial = "
                 "history containing at least one in-domain operation; distinct by full history")
    clientops.run_campaign(camp, model, rng, n, clientops.ALL_KINDS, 40, "C19")
    # every Latin-1 character, alone and all 256 together: pasted text arrives as its Latin-1 bytes
    ops = [("paste", chr(i)) for i in range(256)] + [("paste", "".join(chr(i) for i in range(256)) * 3)]
    real, _final = clientops.run_real(8, 8, False, False, ops)
    for op, got in zip(ops, real):
        camp.evaluations += 1
        camp.count("latin1-sweep")
        want = [("ClientCutText", op[1].encode("latin-1"))]
        parsed = clientops.parse_c2s(got) if got is not None else None
        if parsed != want:
            camp.oracle_failures.append({"kind": "oracle", "property": "C19",
                                         "case": {"width": 8, "height": 8, "force_caps": False, "has_screen": False, "ops": [list(op)]},
                                         "what": f"paste of {op[1][:8]!r} ({len(op[1])} Latin-1 character(s)): expected {str(want)[:80]}, client wrote "
                                                 f"{'an exception' if parsed is None else str(parsed)[:80]}"})
            break
    camp.nontrivial.add("latin1-sweep")
    return camp


def replay(payload):
    return clientops.replay_case(payload["case"], "C19")
