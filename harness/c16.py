"""C16 - the logging proxy is a transparent relay."""
import io
import os
import random
import shutil
import struct
import tempfile

import common
import proxyreal
import rfbgen
import rfbreal
from proxyreal import Proxy, cut_text, fbur, key_event, pointer_event, qemu_key, set_encodings, set_pixel_format, viewer_handshake
from rfbreal import Cfg

from vncdotool import loggingproxy as lp

EXTRA_VO = ["Proofs/RecorderDispatchTie.vo"]
TRUSTED_BASE = ["Model/Recorder.v (viewer-side parser) and Model/Rfb.v (the logging client is the library client started at "
                "ServerInit with the proxy factory's options) hand-written; TYPE_LEN, message numbers, struct formats regenerated",
                "twisted.protocols.portforward is trusted to write what it is handed (in-memory transports stand in for TCP; "
                "back-pressure / producer registration is not exercised)"]
ASSUMPTIONS = ["OPEN FINDINGS (KNOWN_FINDINGS.json): keysyms above 0x10FFFF make chr() raise; a viewer selecting a pixel format "
               "other than the one the logging client assumes (the server's native format when it is renderable, else RGB32) makes "
               "the logging decoder lose framing; the two recorded ZRLE decoder findings of C02 apply to the logging client too. "
               "The main stream stays outside those domains; each is re-confirmed by a dedicated case",
               "the two legs are causal: the server sends ServerInit only after the viewer's ClientInit was forwarded"]

FMT_BLOCK = {id(f): f.block() for f in rfbgen.ACCEPTED}


def gen_viewer(rng, native_block):
    version = rng.choice([b"003.003", b"003.007", b"003.008"])
    new = version != b"003.003"
    pwreq = (not new) and rng.random() < 0.4
    vnc = new and rng.random() < 0.4
    resp = bytes(rng.choice([0, 2, 4, 6, 255, rng.getrandbits(8)]) for _ in range(16))
    hs = viewer_handshake(version, security=(b"\x02" if vnc else b"\x01"),
                          auth_response=(resp if (vnc or pwreq) else None), shared=rng.choice([0, 1]))
    msgs = []
    for _ in range(rng.randrange(0, 20)):
        r = rng.random()
        if r < 0.3:
            k = rng.choice([0, rng.randrange(1, 127), rng.randrange(0x80, 0xD800), rng.randrange(0xE000, 0x110000), 0xFFFF, 0x10FFFF,
                            rng.choice(list(lp.REVERSE_MAP))])
            msgs.append(key_event(rng.choice([0, 1]), k))
        elif r < 0.5:
            msgs.append(pointer_event(rng.getrandbits(8), rng.choice([0, 65535, rng.getrandbits(16)]), rng.getrandbits(16)))
        elif r < 0.62:
            msgs.append(fbur(rng.choice([0, 1, 255]), rng.getrandbits(16), rng.getrandbits(16), rng.getrandbits(16), rng.getrandbits(16)))
        elif r < 0.74:
            n = rng.choice([0, 1, 2, 7, 30, 300])
            msgs.append(set_encodings([rng.choice([0, 1, 2, 5, 16, -239, -223, -224, -258, rng.randrange(-2**31, 2**31)]) for _ in range(n)]))
        elif r < 0.86:
            n = rng.choice([0, 1, 2, 17, 255, 256, 4000])
            msgs.append(cut_text(bytes(rng.getrandbits(8) for _ in range(n))))
        elif r < 0.94:
            # keysym 0 ("no symbol", the scancode alone identifies the key) with any scancode is legal too
            msgs.append(qemu_key(rng.choice([0, 1, 256, 65535]),
                                 rng.choice([0, 0, rng.randrange(1, 0xD800), rng.choice(list(lp.REVERSE_MAP))]),
                                 rng.choice([0, 0x1d, 0x56, 0xa0, 0xe01d, rng.getrandbits(32)])))
        else:
            msgs.append(set_pixel_format(native_block))      # re-selecting the format in force changes nothing
    return version, pwreq, hs, msgs


def cut(stream, rng, kmax=8):
    if len(stream) < 2:
        return [stream] if stream else []
    k = min(rng.randrange(0, kmax), len(stream) - 1)
    cuts = sorted(rng.sample(range(1, len(stream)), k))
    return [stream[a:b] for a, b in zip([0] + cuts, cuts + [len(stream)])]


def schedule(rng, pre_v, pre_s, init, post_v, post_s):
    """causal interleaving: [('v'|'s', bytes)]"""
    def mix(a, b):
        a, b = [("v", x) for x in a], [("s", x) for x in b]
        out = []
        while a or b:
            src = a if (a and (not b or rng.random() < 0.5)) else b
            out.append(src.pop(0))
        return out
    return mix(pre_v, pre_s) + [("v", init)] + mix(post_v, post_s)


def logging_cfg():
    f = lp.VNCLoggingServerFactory
    return Cfg(variant=1, shared=True, pseudocursor=f.pseudocursor, nocursor=f.nocursor, pseudodesktop=f.pseudodesktop,
               last_rect=f.last_rect, qemu=f.qemu_extended_key)


def drive(p, sched):
    """-> failure text or None.  After every chunk the opposite transport must have grown by exactly that chunk."""
    sent_v = sent_s = b""
    for i, (side, data) in enumerate(sched):
        if side == "v":
            err = p.from_viewer(data)
            sent_v += data
        else:
            err = p.from_server(data)
            sent_s += data
        if err is not None:
            return (f"chunk #{i} ({'viewer->server' if side == 'v' else 'server->viewer'}, {len(data)} bytes, "
                    f"starts {data[:6].hex()}) raised {type(err).__name__}: {str(err)[:100]}")
        if p.to_server() != sent_v:
            return (f"after chunk #{i}: the server leg received {len(p.to_server())} bytes, the viewer has sent {len(sent_v)} "
                    f"(first difference at {next((k for k, (a, b) in enumerate(zip(p.to_server(), sent_v)) if a != b), min(len(p.to_server()), len(sent_v)))})")
        if p.to_viewer() != sent_s:
            return f"after chunk #{i}: the viewer leg received {len(p.to_viewer())} bytes, the server has sent {len(sent_s)}"
    return None


def one_session(rng, factory=None, clock=None):
    native = rng.choice(rfbgen.ACCEPTED)
    srv = rfbgen.gen_session(rng, 1, None, want_success=True, native=native, nmsgs=rng.choice([0, 1, 2, 3]),
                             version=rng.choice([(3, 3), (3, 7), (3, 8)]), size=(rng.choice([1, 8, 20, 64]), rng.choice([1, 8, 20, 40])))
    version, pwreq, hs, msgs = gen_viewer(rng, native.block())
    sdata = bytes(srv.data)
    at = srv.serverinit_at
    pre_v = cut(b"".join(hs[:-1]), rng, 4)
    pre_s = cut(sdata[:at], rng, 4)
    post_v = cut(b"".join(msgs), rng, 10)
    post_s = cut(sdata[at:], rng, 10)
    sched = schedule(rng, pre_v, pre_s, hs[-1], post_v, post_s)
    return srv, version, pwreq, sched, sdata[at:]


def run(tier, seed, model):
    camp = common.Campaign()
    rng = random.Random(seed * 7919 + 16)
    n = 300 if tier == "quick" else 8000
    reqs, meta = [], []
    for i in range(n):
        srv, version, pwreq, sched, after_init = one_session(rng)
        if srv.findings or not srv.established:
            camp.count("skipped:decoder-known-finding-domain")
            continue
        camp.evaluations += 1
        camp.count("viewer-version:" + version.decode())
        for k, v in srv.notes.items():
            camp.count("server:" + k, v)
        camp.count("chunks", len(sched))
        p = Proxy(password_required=pwreq)
        why = drive(p, sched)
        camp.nontrivial.add(i)
        if why:
            camp.oracle_failures.append({"kind": "oracle", "property": "C16",
                                         "case": {"pwreq": pwreq, "sched": [[s, d.hex()] for s, d in sched]},
                                         "what": f"viewer RFB {version.decode()}, password_required={pwreq}: {why}"})
            if len(camp.oracle_failures) >= 3:
                break
            continue
        if model is not None:
            vchunks = [[0, d] for s, d in sched if s == "v"]
            reqs.append(("proxy_run", [pwreq, 0, vchunks]))
            meta.append(("viewer", i, None))
            # the logging client = library client from ServerInit on
            cfg = logging_cfg()
            pre = b"RFB 003.008\n\x01\x01\x00\x00\x00\x00"
            vn = p.client_side.vnclog
            tape = []
            # the zlib tape: re-inflate the ZRLE blocks with an independent stream by running a stand-alone real client
            rr = rfbreal.run_real(cfg, [pre + after_init])
            reqs.append(rfbreal.model_request(cfg, [pre + after_init], rr["tape"], want_screen=True))
            scr = None if vn is None or vn.screen is None else (vn.screen.size, vn.screen.tobytes())
            meta.append(("logging", i, (scr, rr["final"][0])))
        if len(camp.samples) < 4 and i % 67 == 0:
            camp.samples.append({"viewer_version": version.decode(), "chunks": len(sched),
                                 "viewer_bytes": len(p.to_server()), "server_bytes": len(p.to_viewer()), "server": dict(srv.notes)})
    multi_session(camp, rng, 12 if tier == "quick" else 200)
    if not camp.oracle_failures:
        session_ends(camp, rng, 40 if tier == "quick" else 1500)
    if model is not None:
        theorem_samples(camp, model, rng, 40 if tier == "quick" else 1500)
    if model is not None:
        for ans, (kind, i, extra) in zip(model.call_many(reqs), meta):
            if kind == "viewer":
                bad = [ch for ch in ans[0] if ch[0] != 0]
                if bad:
                    camp.model_mismatches.append({"property": "C16", "case": {"session": i},
                                                  "what": f"session {i}: the parser model raises/spins (status {bad[0][0]}) where the real parser did not"})
            else:
                scr, real_final = extra
                evs, final = rfbreal.canon_model(ans)
                mscr = rfbreal.model_screen(ans)
                if final[0] != "idle" or real_final != "idle":
                    camp.model_mismatches.append({"property": "C16", "case": {"session": i},
                                                  "what": f"session {i}: logging client model ends {final[0]}, stand-alone real client {real_final}"})
                elif scr is not None and mscr is not None and scr != mscr:
                    camp.model_mismatches.append({"property": "C16", "case": {"session": i},
                                                  "what": f"session {i}: the logging client's screen differs from the model's"})
    findings(camp)
    camp.rule = ("two-leg sessions through the real VNCLoggingServerProxy/VNCLoggingClientProxy pair on in-memory transports: viewer "
                 "handshake (3.3/3.7/3.8, None / VNC response / --password-required) + 0..19 client messages of the seven kinds with "
                 "arbitrary field values (keysyms up to 0x10FFFF, cut texts 0..4000 bytes, 0..300 encodings, QEMU keys, update "
                 "requests, pointer masks), server handshake + ServerInit + updates in every encoding (rfbgen) in a renderable native "
                 "format; both streams cut at random and interleaved causally; after EVERY chunk each leg must have received exactly "
                 "the bytes sent so far and nothing may raise; plus multi-connection runs on one factory (shared file, stdout-like "
                 "stream, per-connection files); parser and logging client compared with the Coq models; non-trivial = session")
    return camp


def theorem_samples(camp, model, rng, n):
    """the statement of C16_viewer_bytes_relayed sampled against the implementation: viewer sessions from the theorem's
    domain (vmsg with vwf), bytes from the extracted Coq spec (vwire), fed to the REAL proxy in random chunks"""
    names = [k for k in lp.REVERSE_MAP]

    def keysym():
        return rng.choice([rng.randrange(1, 127), rng.randrange(0xA0, 0xD800), rng.randrange(0xE000, 0x110000), rng.choice(names)])

    def gen():
        msgs = []
        for _ in range(rng.randrange(1, 25)):
            k = rng.randrange(7)
            if k == 0:
                msgs.append([0, [rng.getrandbits(8) for _ in range(19)]])
            elif k == 1:
                msgs.append([1, rng.getrandbits(8), [[rng.getrandbits(8) for _ in range(4)] for _ in range(rng.choice([0, 1, 3, 40]))]])
            elif k == 2:
                msgs.append([2, [rng.getrandbits(8) for _ in range(9)]])
            elif k == 3:
                msgs.append([3, rng.choice([0, 1, 255]), keysym()])
            elif k == 4:
                msgs.append([4, rng.getrandbits(8), rng.choice([0, 65535, rng.getrandbits(16)]), rng.getrandbits(16)])
            elif k == 5:
                msgs.append([5, [rng.getrandbits(8) for _ in range(3)], [rng.getrandbits(8) for _ in range(rng.choice([0, 1, 20, 700]))]])
            else:
                msgs.append([6, rng.choice([0, 1, 65535]), keysym(), [rng.getrandbits(8) for _ in range(4)]])
        return msgs
    cases = [gen() for _ in range(n)]
    answers = model.call_many([("spec_viewer", m) for m in cases])
    for msgs, ans in zip(cases, answers):
        wire = bytes(ans[0])
        version = rng.choice([b"003.003", b"003.007", b"003.008"])
        hs = b"".join(viewer_handshake(version))
        p = Proxy(password_required=False)
        camp.evaluations += 1
        camp.count("theorem-sample")
        camp.nontrivial.add(("thm", len(wire), wire[:24]))
        err = p.from_viewer(hs)
        data = wire
        sent = hs
        pieces = cut(data, rng, 8) if data else []
        why = None if err is None else f"handshake raised {err!r}"
        for c in pieces:
            if why:
                break
            # the arrival time moves on between chunks
            p.clock.now += rng.choice([0, 0.0001, 0.3, 12.5])
            err = p.from_viewer(c)
            sent += c
            if err is not None:
                why = f"a chunk raised {type(err).__name__}: {str(err)[:80]}"
            elif p.to_server() != sent:
                why = f"after {len(sent)} bytes the server had received {len(p.to_server())} (not exactly the viewer's bytes)"
        if why:
            camp.oracle_failures.append({"kind": "oracle", "property": "C16",
                                         "case": {"spec": "viewer_bytes_relayed", "msgs": msgs, "version": version.decode()},
                                         "what": f"a viewer session written as the C16 theorem says (kinds {[m[0] for m in msgs][:12]}): {why}"})
            return


def multi_session(camp, rng, rounds):
    """several connections on ONE factory: sequential, overlapping, shared stream / per-connection files"""
    for r in range(rounds):
        mode = rng.choice(["stream", "stream", "dir"])
        tmp = None
        factory = lp.VNCLoggingServerFactory("server.example", 5900)
        clock = proxyreal.FakeTime()
        try:
            if mode == "dir":
                tmp = tempfile.mkdtemp(prefix="c16-")
                factory.output = tmp
                ticker = [0]

                def strftime(fmt, _t=ticker):
                    _t[0] += rng.choice([0, 1, 1])        # a viewer may come back within the same second
                    return "c%04d" % _t[0]
                clock.strftime = strftime
            else:
                factory.output = io.StringIO()
            specs = []
            # password_required is ONE setting of the factory (vnclog --password-required), read while each connection's
            # handshake is parsed: every viewer of this factory meets the same value
            for _ in range(rng.choice([2, 3]) * 6):
                srv, version, pwreq, sched, _ai = one_session(rng)
                if srv.findings or not srv.established:
                    continue
                if specs and pwreq != specs[0][0]:
                    continue
                specs.append((pwreq, list(sched)))
                if len(specs) >= 3:
                    break
            if specs:
                factory.password_required = specs[0][0]
            # per-connection files + overlapping connections is the open finding c16-forever-concurrent
            overlap = mode == "stream" and rng.random() < 0.5
            camp.evaluations += 1
            camp.count("multi:" + mode + (":overlapping" if overlap else ":sequential"))
            why = None
            sessions = {}

            def conn(j):
                if j not in sessions:
                    sessions[j] = [Proxy(factory=factory, clock=clock), specs[j][1], b"", b""]
                return sessions[j]
            if overlap:
                for j in range(len(specs)):
                    conn(j)
            live = list(range(len(specs)))
            while live and not why:
                j = live[0] if not overlap else rng.choice(live)
                try:
                    p, sched, sv, ss = conn(j)
                except Exception as e:  # noqa: BLE001
                    why = f"connection #{j} of {len(specs)} on one factory ({mode}): accepting the viewer raised {type(e).__name__}: {str(e)[:100]}"
                    break
                if not sched:
                    e = p.lose()
                    if e is not None:
                        why = f"connection #{j}: connectionLost raised {type(e).__name__}: {e}"
                    live.remove(j)
                    continue
                side, data = sched.pop(0)
                err = p.from_viewer(data) if side == "v" else p.from_server(data)
                if side == "v":
                    sessions[j][2] += data
                else:
                    sessions[j][3] += data
                if err is not None:
                    why = (f"connection #{j} of {len(specs)} on one factory ({mode}, {'overlapping' if overlap else 'sequential'}): "
                           f"{'viewer->server' if side == 'v' else 'server->viewer'} chunk raised {type(err).__name__}: {str(err)[:100]}")
                elif p.to_server() != sessions[j][2] or p.to_viewer() != sessions[j][3]:
                    why = f"connection #{j}: relayed bytes differ from the bytes sent"
            if why:
                camp.oracle_failures.append({"kind": "oracle", "property": "C16", "case": {"multi": mode, "round": r}, "what": why})
                return
        finally:
            if tmp:
                shutil.rmtree(tmp, ignore_errors=True)


def session_ends(camp, rng, n):
    """either side says its last words and closes while the other side reads slowly: what was sent still arrives, in full,
    before the close (a graceful close, never a reset that discards the send buffer)"""
    from proxyreal import SlowTransport
    for i in range(n):
        srv, version, pwreq, sched, _ = one_session(rng)
        if srv.findings or not srv.established:
            continue
        p = Proxy(password_required=pwreq, transport_cls=SlowTransport)
        why = drive(p, sched)
        if why:
            continue                       # (judged by the main stream)
        who = rng.choice(["viewer", "viewer", "server"])
        tail_v = b"".join(rng.choice([key_event(rng.randrange(2), rng.randrange(32, 127)), pointer_event(rng.randrange(8), rng.randrange(50), rng.randrange(50)),
                                      struct.pack("!BxxxI", 6, 2000) + bytes(2000)]) for _ in range(rng.randrange(1, 6)))
        tail_s = b"".join(rng.choice([b"\x02", struct.pack("!BxxxI", 3, 500) + bytes(500)]) for _ in range(rng.randrange(1, 4)))
        sent_v, sent_s = p.to_server(), p.to_viewer()
        # the slow reader has taken only part of what was written so far
        p.server_transport.drain(rng.randrange(0, len(p.server_transport.pending) + 1))
        p.viewer_transport.drain(rng.randrange(0, len(p.viewer_transport.pending) + 1))
        err = None
        if who == "viewer":
            err = p.from_viewer(tail_v)
            sent_v += tail_v
            err = err or p.lose()
            leg, want, name = p.server_transport, sent_v, "server"
        else:
            err = p.from_server(tail_s)
            sent_s += tail_s
            try:
                from twisted.internet import error
                from twisted.python.failure import Failure
                p.client_side.connectionLost(Failure(error.ConnectionDone()))
            except Exception as e:  # noqa: BLE001
                err = err or e
            leg, want, name = p.viewer_transport, sent_s, "viewer"
        camp.evaluations += 1
        camp.count("session-end:" + who + "-closes")
        camp.nontrivial.add(("end", i, who))
        why = None
        if err is not None:
            why = f"raised {type(err).__name__}: {err}"
        elif leg.closed != "closed" or leg.delivered != want:
            why = (f"the {name} leg was {leg.closed or 'left open'} with {len(leg.delivered)} of the {len(want)} bytes sent to it delivered"
                   + (" - the send buffer was discarded" if leg.closed == "aborted" else ""))
        if why:
            camp.oracle_failures.append({"kind": "oracle", "property": "C16", "case": {"pwreq": pwreq, "sched": [[s_, d.hex()] for s_, d in sched], "session_end": who},
                                         "what": f"the {who} sends its last {len(tail_v if who == 'viewer' else tail_s)} bytes and closes while the {name} reads slowly: {why}"})
            return


def findings(camp):
    hs = viewer_handshake(b"003.008")
    p = Proxy()
    for h in hs:
        p.from_viewer(h)
    if p.from_viewer(key_event(1, 0x110000)) is not None:
        camp.known_hits.append("a KeyEvent with keysym 0x110000: chr() raises ValueError, the chunk is not forwarded "
                               "(finding c16-keysym-range)")
    # viewer selects BGR16 on an RGB32 server; the server then sends 16-bit raw rectangles
    p = Proxy()
    for h in hs:
        p.from_viewer(h)
    p.from_server(struct.pack("!HH16sI", 8, 8, rfbgen.RGB32.block(), 0))
    p.from_viewer(set_pixel_format(rfbgen.BGR16.block()))
    rng = random.Random(5)
    bad = None
    for _ in range(40):
        px = bytes(rng.getrandbits(8) for _ in range(8 * 8 * 2))
        bad = p.from_server(b"\0\0\0\x01" + struct.pack("!HHHHi", 0, 0, 8, 8, 0) + px)
        if bad is not None:
            break
    finding_forever(camp)
    vn = p.client_side.vnclog
    if bad is not None or (vn is not None and (len(vn._packet) > 0 or vn._expected_len > 1)):
        camp.known_hits.append("viewer selects a 16-bit pixel format on a 32-bit server: the logging client keeps decoding 4-byte "
                               f"pixels and loses framing ({'raised ' + type(bad).__name__ if bad is not None else 'stuck mid-rectangle'}) "
                               "(finding c16-pixel-format)")


def finding_forever(camp):
    tmp = tempfile.mkdtemp(prefix="c16-")
    try:
        factory = lp.VNCLoggingServerFactory("server.example", 5900)
        factory.output = tmp
        clock = proxyreal.FakeTime()
        n = [0]

        def strftime(fmt):
            n[0] += 1
            return "f%04d" % n[0]
        clock.strftime = strftime
        a, b = Proxy(factory=factory, clock=clock), Proxy(factory=factory, clock=clock)
        for h in viewer_handshake(b"003.008"):
            a.from_viewer(h)
            b.from_viewer(h)
        a.lose()
        if b.from_viewer(key_event(1, 97)) is not None:
            camp.known_hits.append("--forever DIR with two overlapping viewer connections: the factory keeps ONE _out for all "
                                   "connections, so the first disconnect closes the other connection's script file and its next "
                                   "recorded event raises ValueError (finding c16-forever-concurrent)")
    finally:
        shutil.rmtree(tmp, ignore_errors=True)


def replay(payload):
    case = payload["case"]
    if "sched" not in case:
        return True, "replay: multi-connection case; re-run ./check C16"
    p = Proxy(password_required=case["pwreq"])
    why = drive(p, [(s, bytes.fromhex(d)) for s, d in case["sched"]])
    return why is None, f"replay: {why or 'relayed transparently'}"
