"""Shared body of the engine campaigns (C01, C02, C03, C06, C13, C15): run a generated session on
the real client under several chunkings, compare with the extracted model and with the run of the
implementation itself on the unchunked stream."""
from __future__ import annotations

import common
import rfbgen
import rfbreal
from rfbreal import Cfg, canon_model, model_request, model_screen, model_steps, run_real, same_final


def trim(ev):
    out = []
    for e in ev:
        out.append(tuple((x[:24].hex() + f"..({len(x)}B)") if isinstance(x, (bytes, bytearray)) and len(x) > 24
                         else (x.hex() if isinstance(x, (bytes, bytearray)) else x) for x in e))
    return out


def first_diff(a, b):
    for k, (x, y) in enumerate(zip(a, b)):
        if x != y:
            return k, trim([x])[0], trim([y])[0]
    if len(a) != len(b):
        return min(len(a), len(b)), f"len {len(a)}", f"len {len(b)}"
    return None


def case_payload(cfg: Cfg, chunks, extra=None):
    p = {"cfg": {k: (v.hex() if isinstance(v, bytes) else v) for k, v in cfg.__dict__.items()},
         "chunks": [c.hex() for c in chunks]}
    if extra:
        p.update(extra)
    return p


def cfg_from_payload(d):
    kw = dict(d)
    kw["urandom"] = bytes.fromhex(kw["urandom"])
    return Cfg(**kw)


class Batch:
    """collects (cfg, chunks, tape) model requests and resolves them in one driver run"""

    def __init__(self, model, camp=None, pid=None, limit=600):
        self.model = model
        self.reqs = []
        self.meta = []
        # with a campaign given, the batch is resolved every [limit] requests so that memory stays bounded
        self.camp, self.pid, self.limit = camp, pid, limit

    def add(self, cfg, chunks, tape, real, want_screen, tag):
        if self.model is None:
            return
        self.reqs.append(model_request(cfg, chunks, tape, want_screen))
        self.meta.append((cfg, chunks, real, want_screen, tag))
        if self.camp is not None and len(self.reqs) >= self.limit:
            self.resolve(self.camp, self.pid)

    def resolve(self, camp, pid):
        if self.model is None or not self.reqs:
            return
        answers = self.model.call_many(self.reqs)
        for ans, (cfg, chunks, real, want_screen, tag) in zip(answers, self.meta):
            ev, fin = canon_model(ans)
            problems = []
            if ev is None:
                problems.append("model ran out of fuel (would spin)")
            else:
                if ev != real["events"]:
                    problems.append("events differ at %r" % (first_diff(ev, real["events"]),))
                if not same_final(real["final"], fin, cfg.variant):
                    problems.append(f"final state: model {fin} vs client {real['final']}")
                if model_steps(ans) != (real["steps"] or 0) and real["final"][0] != "crashed":
                    problems.append(f"handler invocations: model {model_steps(ans)} vs client {real['steps']}")
                elided = real["screen"] is not None and real["screen"][1] == b"elided"
                if want_screen and not elided and real["final"][0] != "crashed" and model_screen(ans) != real["screen"]:
                    ms, rs = model_screen(ans), real["screen"]
                    problems.append(f"screen differs: model size {ms and ms[0]} client size {rs and rs[0]}")
            if problems and len(camp.model_mismatches) < 5:
                camp.model_mismatches.append({"property": pid, "case": case_payload(cfg, chunks, {"tag": tag}),
                                              "what": "; ".join(problems)})
            elif problems:
                camp.model_mismatches.append({"what": "(more)"})
        self.reqs, self.meta = [], []


def observable(r):
    """what C01 calls observable behaviour: callbacks with arguments, bytes sent, close, screen,
    and whether the client died"""
    return (r["events"], r["final"][0], r["screen"])
