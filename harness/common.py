"""Shared machinery of the checks: build, model driver, evidence, replays, verdicts."""
from __future__ import annotations

import fcntl
import hashlib
import json
import os
import random
import re
import subprocess
import sys
import time

VERIF = os.path.dirname(os.path.dirname(os.path.abspath(__file__)))
REPO = os.environ.get("VERIF_REPO", "/repo")
COQ = os.path.join(VERIF, "coq")
OCAML = os.path.join(VERIF, "ocaml")
PY = "/venv/bin/python"
NPROC = 16

os.environ.setdefault("PYTHONHASHSEED", "0")
if REPO not in sys.path:
    sys.path.insert(0, REPO)


# ----------------------------------------------------------------------------- sexp

def sx(x) -> str:
    """Python value -> sexp text. bools/ints -> ints; bytes/str -> list of ints; None -> ()."""
    if x is None:
        return "()"
    if isinstance(x, bool):
        return "1" if x else "0"
    if isinstance(x, int):
        assert -(1 << 61) < x < (1 << 61), x
        return str(x)
    if isinstance(x, (bytes, bytearray)):
        return "(" + " ".join(map(str, x)) + ")"
    if isinstance(x, str):
        return "(" + " ".join(str(ord(c)) for c in x) + ")"
    if isinstance(x, (list, tuple)):
        return "(" + " ".join(sx(y) for y in x) + ")"
    raise TypeError(type(x))


_tok = re.compile(r"\(|\)|-?\d+")


def parse_sx(s: str):
    stack = [[]]
    for t in _tok.findall(s):
        if t == "(":
            stack.append([])
        elif t == ")":
            top = stack.pop()
            stack[-1].append(top)
        else:
            stack[-1].append(int(t))
    assert len(stack) == 1 and len(stack[0]) == 1, s[:200]
    return stack[0][0]


class Model:
    """Batch interface to the extracted OCaml model (ocaml/driver)."""

    def __init__(self):
        self.exe = os.path.join(OCAML, "driver")

    def call_many(self, reqs: list[tuple[str, object]], shards: int = NPROC) -> list:
        if not reqs:
            return []
        lines = [name + " " + sx(arg) for name, arg in reqs]
        n = max(1, min(shards, len(lines) // 50 + 1))
        parts = [lines[i::n] for i in range(n)]
        procs = []
        for part in parts:
            p = subprocess.Popen(["/bin/sh", "-c", "ulimit -s unlimited 2>/dev/null; exec " + self.exe],
                                 stdin=subprocess.PIPE, stdout=subprocess.PIPE)
            procs.append(p)
        import threading
        outs = [None] * n

        def feed(i):
            o, _ = procs[i].communicate(("\n".join(parts[i]) + "\n").encode())
            outs[i] = o.decode().splitlines()

        ths = [threading.Thread(target=feed, args=(i,)) for i in range(n)]
        for t in ths:
            t.start()
        for t in ths:
            t.join()
        res = [None] * len(lines)
        for i in range(n):
            if procs[i].returncode != 0 or len(outs[i]) != len(parts[i]):
                raise RuntimeError(f"model driver failed (rc={procs[i].returncode}, "
                                   f"{len(outs[i])}/{len(parts[i])} answers)")
            for j, o in enumerate(outs[i]):
                res[i + j * n] = parse_sx(o)
        return res

    def call(self, name: str, arg):
        return self.call_many([(name, arg)])[0]


# ----------------------------------------------------------------------------- build

class BuildResult:
    def __init__(self):
        self.gen_ok = True
        self.gen_msg = ""
        self.scoped_gen = {}
        self.failed_vo: list[str] = []   # .v files whose compilation failed
        self.log = ""
        self.driver_ok = False
        self.wall = 0.0


def _run(cmd, cwd=None, timeout=1800, env=None):
    p = subprocess.run(cmd, cwd=cwd, stdout=subprocess.PIPE, stderr=subprocess.STDOUT,
                       timeout=timeout, env=env)
    return p.returncode, p.stdout.decode(errors="replace")


def build(targets: list[str] | None = None) -> BuildResult:
    """Regenerate Gen/*.v from /repo, run make (full .vo), rebuild the extracted driver.
    Serialised by a lock on the build directory."""
    t0 = time.time()
    r = BuildResult()
    os.makedirs(os.path.join(VERIF, ".lock"), exist_ok=True)
    with open(os.path.join(VERIF, ".lock", "build.lock"), "w") as lk:
        fcntl.flock(lk, fcntl.LOCK_EX)
        env = dict(os.environ, PYTHONHASHSEED="0", VERIF_REPO=REPO, PYTHONPATH=REPO)
        for g in ("tables.py", "formats.py"):                 # the executable model itself is built from these
            rc, out = _run([PY, os.path.join(VERIF, "gen", g)], env=env, timeout=120)
            if rc != 0:
                r.gen_ok = False
                r.gen_msg += f"gen/{g} failed (rc={rc}):\n{out[-2000:]}\n"
        # translators whose output only some proofs depend on: when one fails closed its output is replaced by a file that
        # does not compile, so exactly the obligations resting on it stop checking (and say why)
        # gen/exprs.py writes one file per area and stubs the areas that fail itself
        rc, out = _run([PY, os.path.join(VERIF, "gen", "exprs.py")], env=env, timeout=120)
        if rc != 0:
            for m_ in re.finditer(r"gen/exprs\.py\[(\w+)\] -> (Gen/\w+\.v): (.*)", out):
                r.scoped_gen[m_.group(2)] = f"gen/exprs.py[{m_.group(1)}] failed closed: {m_.group(3)}"
            if not any(k.startswith("Gen/Exprs") for k in r.scoped_gen):
                r.gen_ok = False
                r.gen_msg += f"gen/exprs.py failed (rc={rc}):\n{out[-2000:]}\n"
        for g, outv in (("commands.py", "Gen/Commands.v"), ("screen.py", "Gen/ScreenOps.v"), ("server.py", "Gen/ParseServer.v"), ("server.py decodekey", "Gen/DecodeKey.v"), ("recorder.py", "Gen/RecorderOps.v"), ("expect.py", "Gen/ExpectOps.v"), ("dispatch.py", "Gen/RecorderDispatch.v")):
            rc, out = _run([PY, os.path.join(VERIF, "gen", g.split()[0])] + g.split()[1:], env=env, timeout=120)
            if rc != 0:
                r.scoped_gen[outv] = f"gen/{g} failed closed: {out.strip().splitlines()[-1] if out.strip() else rc}"
                with open(os.path.join(COQ, outv), "w") as fh:
                    fh.write("(* %s *)\nDefinition translator_failed_closed : True := 0.\n" % r.scoped_gen[outv].replace("*)", "* )"))
        mk, cp = os.path.join(COQ, "Makefile"), os.path.join(COQ, "_CoqProject")
        if not os.path.exists(mk) or os.path.getmtime(mk) < os.path.getmtime(cp):
            _run(["coq_makefile", "-f", "_CoqProject", "-o", "Makefile"], cwd=COQ)
        rc, out = _run(["timeout", "1500", "make", "-k", "-j", str(NPROC)], cwd=COQ, timeout=1600)
        r.log = out
        if rc != 0:
            for m in re.finditer(r'File "\./([^"]+\.v)", line', out):
                if m.group(1) not in r.failed_vo:
                    r.failed_vo.append(m.group(1))
            for m in re.finditer(r"\*\*\* \[[^\]]*: ([^\]\s]+)\.vo\]", out):
                f = m.group(1) + ".v"
                if f not in r.failed_vo:
                    r.failed_vo.append(f)
        # extraction output lands in coq/; move to ocaml/ if fresh
        src = os.path.join(COQ, "model.ml")
        if os.path.exists(src):
            new = open(src).read()
            dst = os.path.join(OCAML, "model.ml")
            if not os.path.exists(dst) or open(dst).read() != new:
                os.replace(src, dst)
                os.replace(os.path.join(COQ, "model.mli"), os.path.join(OCAML, "model.mli"))
            else:
                os.remove(src)
                if os.path.exists(os.path.join(COQ, "model.mli")):
                    os.remove(os.path.join(COQ, "model.mli"))
        drv = os.path.join(OCAML, "driver")
        ml = os.path.join(OCAML, "model.ml")
        extract_ok = os.path.exists(os.path.join(COQ, "Extract", "Extract.vo")) and os.path.exists(ml)
        if extract_ok:
            need = (not os.path.exists(drv)
                    or os.path.getmtime(drv) < os.path.getmtime(ml)
                    or os.path.getmtime(drv) < os.path.getmtime(os.path.join(OCAML, "driver.ml")))
            if need:
                rc, out = _run(["ocamlfind", "ocamlopt", "-O2", "-w", "-a", "-inline", "100", "model.mli", "model.ml",
                                "driver.ml", "-o", "driver"], cwd=OCAML, timeout=600)
                r.log += out
                r.driver_ok = rc == 0
            else:
                r.driver_ok = True
        else:
            r.driver_ok = False
            if os.path.exists(drv) and "Extract/Extract.v" in r.failed_vo:
                os.remove(drv)
    r.wall = time.time() - t0
    return r


FORBIDDEN = re.compile(r"\b(Admitted|admit|Axiom|Parameter|Conjecture|Unset Guard|bypass_check|type-in-type|"
                       r"impredicative-set|Admit Obligations)\b")


def scan_forbidden() -> list[str]:
    bad = []
    for root, _d, files in os.walk(COQ):
        for f in files:
            if f.endswith(".v"):
                p = os.path.join(root, f)
                for i, line in enumerate(open(p), 1):
                    # comments may mention the words; strip (* ... *) on one line
                    code = re.sub(r"\(\*.*?\*\)", "", line)
                    if FORBIDDEN.search(code):
                        bad.append(f"{os.path.relpath(p, COQ)}:{i}: {line.strip()}")
    return bad


ALLOWED_AXIOMS: set[str] = set()


def check_property_file(pid: str) -> dict:
    """Re-run coqc on Properties/<pid>.v and read its Print Assumptions output."""
    vf = os.path.join("Properties", pid + ".v")
    rc, out = _run(["timeout", "600", "coqc", "-Q", ".", "VD", "-w",
                    "-notation-overridden,-deprecated-hint-without-locality,-deprecated-instance-without-locality",
                    vf], cwd=COQ, timeout=700)
    src = open(os.path.join(COQ, vf)).read()
    src_nc = re.sub(r"\(\*.*?\*\)", "", src, flags=re.S)
    theorems = re.findall(r"^\s*Theorem\s+(\w+)", src_nc, flags=re.M)
    prints = re.findall(r"Print Assumptions\s+(\w+)", src_nc)
    closed = out.count("Closed under the global context")
    axioms = []
    cur = None
    for ln in out.splitlines():
        if ln.strip() == "Axioms:":
            cur = []
            axioms.append(cur)
        elif ln.startswith("Closed under") or not ln.strip():
            cur = None
        elif cur is not None:
            cur.append(ln)
    axioms = ["\n".join(b) + "\n" for b in axioms]
    ax_names = set()
    prim_names = set()
    for blk in axioms:
        for ln in blk.splitlines():
            mm = re.match(r"^(\S+)\s*:\s*(.*)$", ln)
            if mm:
                # Coq's primitive machine integers / binary64 floats are listed by Print Assumptions but are
                # not axioms of this development: names whose type only mentions the primitive types
                ty = mm.group(2)
                if (re.fullmatch(r"[\s()>-]*((float|PrimInt63\.int|bool|Set|comparison|float_comparison)[\s()>-]*)+", ty)
                        and ("float" in ty or "PrimInt63.int" in ty)) or (mm.group(1) in ("float", "PrimInt63.int") and ty.strip() == "Set"):
                    prim_names.add(mm.group(1))
                else:
                    ax_names.add(mm.group(1))
    return {
        "ok": rc == 0 and set(theorems) <= set(prints) and closed + len(axioms) == len(prints)
              and ax_names <= ALLOWED_AXIOMS,
        "rc": rc, "theorems": theorems, "printed": prints, "closed": closed,
        "axioms": sorted(ax_names), "primitives": sorted(prim_names), "output_tail": out[-1500:],
        "cmd": f"cd {COQ} && coqc -Q . VD {vf}  (after make; Print Assumptions under every theorem)",
    }


# ----------------------------------------------------------------------------- verdicts

def seed_from_env() -> int:
    try:
        return int(os.environ.get("VERIF_SEED", "0"))
    except ValueError:
        return 0


def load_known_findings() -> list[dict]:
    p = os.path.join(VERIF, "KNOWN_FINDINGS.json")
    if not os.path.exists(p):
        return []
    return [e for e in json.load(open(p))["findings"] if e.get("status") == "open"]


def write_replay(pid: str, payload: dict) -> str:
    os.makedirs(os.path.join(VERIF, "replays"), exist_ok=True)
    blob = json.dumps(payload, sort_keys=True, default=repr)
    h = hashlib.sha1(blob.encode()).hexdigest()[:12]
    path = os.path.join(VERIF, "replays", f"{pid}-{h}.json")
    with open(path, "w") as f:
        f.write(json.dumps(payload, indent=1, sort_keys=True, default=repr))
    return path


def write_evidence(pid: str, tier: str, seed: int, coverage: dict, wall: float, violations: int,
                   assumptions: list[str]) -> None:
    os.makedirs(os.path.join(VERIF, "evidence"), exist_ok=True)
    ev = {"property_id": pid, "tier": tier, "seed": seed, "level": "proof", "coverage": coverage,
          "assumptions": assumptions, "wall_s": round(wall, 2), "violations": violations}
    with open(os.path.join(VERIF, "evidence", pid + ".json"), "w") as f:
        json.dump(ev, f, indent=1, default=repr)
        f.write("\n")


class Campaign:
    """What a property's campaign returns."""

    def __init__(self):
        self.evaluations = 0
        self.nontrivial: set = set()       # keys of distinct non-trivial cases
        self.rule = ""
        self.samples: list = []
        self.distribution: dict = {}
        self.exhaustive = False
        self.oracle_failures: list[dict] = []    # implementation breaks the property (replay payloads)
        self.model_mismatches: list[dict] = []   # implementation != model
        self.known_hits: list[str] = []          # KNOWN-FINDING lines to print
        self.extra: dict = {}

    def count(self, key, n=1):
        self.distribution[key] = self.distribution.get(key, 0) + n


# standard-library primitives and the axioms the standard library itself declares about them (Uint63 / PrimFloat specs):
# what coqchk -o may list for a property file (only C07 uses them)
COQCHK_ALLOWED = ("Coq.Numbers.Cyclic.Int63.", "Coq.Floats.")


def coqchk(pid):
    """coqchk -o on Properties/<pid>.vo: independent re-check + axiom list -> dict(ok, axioms, msg, wall)"""
    import time as _t
    t0 = _t.time()
    try:
        p = subprocess.run(["coqchk", "-silent", "-o", "-Q", ".", "VD", f"VD.Properties.{pid}"], cwd=COQ, stdout=subprocess.PIPE,
                           stderr=subprocess.STDOUT, timeout=1500)
    except subprocess.TimeoutExpired:
        return {"ok": False, "axioms": [], "msg": "timed out", "wall": round(_t.time() - t0, 1)}
    out = p.stdout.decode(errors="replace")
    axioms, section = [], None
    for line in out.splitlines():
        t = line.strip()
        if t.startswith("* "):
            section = t[2:].split(":")[0]
            rest = t.split(":", 1)[1].strip() if ":" in t else ""
            if section == "Axioms" and rest and rest != "<none>":
                axioms.append(rest)
            elif section != "Axioms" and section != "Theory" and rest and rest != "<none>":
                return {"ok": False, "axioms": axioms, "msg": f"{section}: {rest}", "wall": round(_t.time() - t0, 1)}
        elif section == "Axioms" and t:
            axioms.append(t)
    bad = [a for a in axioms if not a.startswith(COQCHK_ALLOWED)]
    ok = p.returncode == 0 and not bad and "CONTEXT SUMMARY" in out
    msg = "" if ok else (f"axioms outside the standard library: {bad[:5]}" if bad else out[-300:])
    return {"ok": ok, "axioms": axioms, "msg": msg, "wall": round(_t.time() - t0, 1)}
