"""C03 - handshake follows RFB 3.3/3.7/3.8 and never proceeds past failed security."""
import random
import struct

import common
import rfbgen
import rfbreal
from rfbcamp import Batch, case_payload, cfg_from_payload, trim
from rfbreal import Cfg, run_real

TRUSTED_BASE = ["Model/Rfb.v handshake handlers hand-written; formats/constants regenerated (SUPPORTED_SERVER_VERSIONS, "
                "MAX_CLIENT_VERSION, SUPPORTED_AUTHS from the running code)",
                "harness/rfbgen.py gen_handshake: the server side of RFC 6143 §7.1, written by hand",
                "DES / AES / MD5 of the responses are not judged here (C14)"]
ASSUMPTIONS = ["server version >= 3.3 (below that no supported version exists and the client raises)",
               "causal server: after a challenge that the client does not answer the stream ends"]
EXTRA_VO = ["Proofs/RfbTieHandshake.vo"]


def check_handshake(variant, cfg, s, r):
    """-> None or a description of how the run violates the property"""
    ex = s.expect
    ev = r["events"]
    kinds = [e[0] for e in ev]
    writes = b"".join(e[1] for e in ev if e[0] == "W")
    if ex["outcome"] == "raises":
        # a server older than every version the client speaks: whatever the client does, it never answers with a version
        # above the server's and never reports an established connection
        if len(writes) >= 12 and writes[:4] == b"RFB " and writes[11:12] == b"\n":
            try:
                v = (int(writes[4:7]), int(writes[8:11]))
            except ValueError:
                v = None
            if v is not None and v > tuple(ex["server_version"]):
                return f"server {ex['server_version']}: the client answered {writes[:12]!r}, a version above the server's"
        if "Made" in kinds or "Connected" in kinds:
            return f"server {ex['server_version']} (older than every supported version): the connection was reported as established"
        return None
    # 1. version reply
    want = b"RFB %03d.%03d\n" % ex["version"]
    if not writes.startswith(want):
        return f"server {ex['server_version']}: client answered {writes[:12]!r}, the highest supported version not above it is {want!r}"
    pos = 12
    ver = ex["version"]
    # 2. security type
    if "sectype" in ex and ver >= (3, 7):
        if writes[pos:pos + 1] != bytes([ex["sectype"]]):
            return f"offered types -> client selected {writes[pos:pos + 1].hex()!r}, expected type {ex['sectype']}"
        pos += 1
    out = ex["outcome"]
    # 3. responses
    if ex.get("sectype") == 2 and out != "nopassword":
        pos += 16
    if ex.get("sectype") == 30:
        pos += 128 + ex["dh"][1]
    made = "Made" in kinds
    if out == "established":
        shared = 1 if cfg.shared else 0
        if writes[pos:pos + 1] != bytes([shared]):
            return f"ClientInit byte {writes[pos:pos + 1].hex()!r} at offset {pos}, expected {shared:02x} (writes {writes[:pos + 4].hex()})"
        pos += 1
        if not made:
            return "security succeeded and ServerInit was complete but the connection was not reported as established"
        if variant != 0:
            if kinds.count("Connected") != 1:
                return f"factory notified {kinds.count('Connected')} times of the established connection"
        # ClientInit must come after the security result (position of the write in the event order)
        if "Lose" in kinds or "AuthFailed" in kinds or "Errback" in kinds:
            return f"successful handshake but events contain a failure report: {kinds}"
        return None
    # failures: nothing past the security phase is ever written, no success is reported
    if made or "Connected" in kinds:
        return f"outcome {out}: the connection was reported as established ({kinds})"
    if len(writes) != pos:
        return f"outcome {out}: client wrote {len(writes) - pos} byte(s) after the security phase: {writes[pos:pos + 8].hex()}"
    if "Lose" not in kinds:
        return f"outcome {out}: the connection was not closed ({kinds})"
    if out == "authfailed":
        af = [e for e in ev if e[0] == "AuthFailed"]
        if len(af) != 1 or af[0][1] != ex["reason"]:
            return f"authentication failure (reason {ex['reason'][:20]!r}, {len(ex['reason'])} bytes) reported as {trim(af)}"
    if out == "nopassword":
        if variant == 1 and "Errback" not in kinds:
            return "no password available: the library client did not report the failure to the application"
    return None


def run(tier, seed, model):
    camp = common.Campaign()
    rng = random.Random(seed * 7919 + 3)
    n = 1200 if tier == "quick" else 30000
    batch = Batch(model, camp, "C03")
    # every supported version plus boundary banners x variants, deterministic part
    banners = rfbgen.SUPPORTED + [(3, 4), (3, 6), (3, 9), (3, 888), (3, 890), (3, 999), (4, 2), (5, 1), (9, 9), (999, 999),
                                  (4, 999), (3, 3), (3, 0), (0, 0), (2, 999)]
    todo = [(v, variant, pw) for v in banners for variant in (0, 1, 2) for pw in (None, "secret")]
    for i in range(n):
        todo.append((None, rng.choice([0, 1, 2]), rng.choice([None, "pw", "a-long-password", ""])))
    for idx, (version, variant, pw) in enumerate(todo):
        s = rfbgen.gen_session(rng, variant, pw, want_success=None if rng.random() < 0.6 else False, version=version, nmsgs=0)
        cfg = Cfg(variant=variant, password=pw, username=rng.choice([None, "bob"]), shared=rng.choice([None, False, True]))
        if cfg.shared is None:
            cfg.shared = variant != 0
        data = bytes(s.data)
        camp.count("outcome:" + str(s.expect.get("outcome")))
        camp.count("version:%d.%d" % s.expect["server_version"] if s.expect["server_version"] in rfbgen.SUPPORTED else "version:other")
        chs = [[data], [data[i:i + 1] for i in range(len(data))]]
        if len(data) > 2:
            c = rng.randrange(1, len(data))
            chs.append([data[:c], data[c:]])
        tape = []
        for chunks in chs:
            camp.evaluations += 1
            r = run_real(cfg, chunks)
            why = check_handshake(variant, cfg, s, r)
            if s.expect["outcome"] != "raises":
                camp.nontrivial.add((data, len(chunks), variant, pw))
            if why:
                camp.oracle_failures.append({"kind": "oracle", "property": "C03",
                                             "case": case_payload(cfg, chunks, {"expect": {k: repr(v) for k, v in s.expect.items()}}),
                                             "what": f"{['base', 'library', 'CLI'][variant]} client, password={pw!r}: {why}"})
                break
            batch.add(cfg, chunks, tape, r, False, s.expect["outcome"])
        if len(camp.samples) < 6 and idx % 211 == 0:
            camp.samples.append({"variant": variant, "password": pw, "server_version": s.expect["server_version"],
                                 "outcome": s.expect["outcome"], "stream": data[:48].hex()})
        if len(camp.oracle_failures) >= 3:
            break
    if tier == "thorough":
        all_banners(camp)
    batch.resolve(camp, "C03")
    camp.rule = ("15 fixed banners (all 7 supported + boundaries) x 3 client classes x password present/absent, then random "
                 "handshakes: banners, 3.3 schemes, security-type lists incl. unsupported and empty, VNC and ARD exchanges, every "
                 "SecurityResult, reason lengths 0/1/2/255/1000, each delivered whole, byte-at-a-time and with one cut; the client's "
                 "writes and callbacks are judged against the RFC 6143 handshake and compared with the extracted Coq model; "
                 "thorough additionally feeds all 10^6 numeric banners; non-trivial = distinct (stream, chunking, class, password) "
                 "with server version >= 3.3")
    return camp


def all_banners(camp):
    """all 10^6 numeric banners through the real _handleInitial"""
    bad = 0
    for maj in range(1000):
        for minor in range(1000):
            want = rfbgen.negotiated(maj, minor)
            c = rfbreal.RecBase()
            c.factory = rfbreal.rfb.RFBFactory()
            c.makeConnection(rfbreal.RecTransport(c.log))
            try:
                c.dataReceived(b"RFB %03d.%03d\n" % (maj, minor))
                got = c.log[0][1] if c.log and c.log[0][0] == "W" else None
            except ValueError:
                got = "raises"
            exp = "raises" if want is None else b"RFB %03d.%03d\n" % want
            camp.evaluations += 1
            if got != exp:
                bad += 1
                if bad <= 2:
                    camp.oracle_failures.append({"kind": "oracle", "property": "C03",
                                                 "case": {"cfg": Cfg(variant=0).__dict__ | {"urandom": "00"}, "chunks": [(b"RFB %03d.%03d\n" % (maj, minor)).hex()],
                                                          "expect": {"outcome": "'banner'"}},
                                                 "what": f"banner {maj}.{minor}: client answered {got!r}, expected {exp!r}"})
    camp.extra["all_10^6_banners"] = True
    camp.exhaustive = True


def replay(payload):
    case = payload["case"]
    cfg = cfg_from_payload(case["cfg"])
    chunks = [bytes.fromhex(c) for c in case["chunks"]]
    r = run_real(cfg, chunks)
    return True, f"replay: events {trim(r['events'])[:12]} final {r['final'][:2]} (stored expectation: {case.get('expect')})"
