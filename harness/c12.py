"""C12 - the client's screen is the exact composition of everything the server sent."""
import random

import common
import rfbgen
import rfbreal

from vncdotool import client as vclient

TRUSTED_BASE = ["harness/rfbgen.py RefCanvas: the composition rule of the property, written by hand",
                "Model/Image.v + Model/Screen.v: hand-written model of the slice of Pillow the client uses (new, paste with "
                "clipping, frombytes raw modes); Pillow itself is trusted"]
ASSUMPTIONS = ["updates carry exactly w*h pixels in the image mode in force", "sizes 0 <= w, h < 65536"]
MODES = {"RGB": (0, 3), "RGBX": (1, 4), "BGR": (2, 3), "BGRX": (3, 4), "BGR;16": (4, 2)}


def rgb_of(mode, px):
    if mode == "RGB" or mode == "RGBX":
        return (px[0], px[1], px[2])
    if mode == "BGR" or mode == "BGRX":
        return (px[2], px[1], px[0])
    v = px[0] | (px[1] << 8)
    return (((v >> 11) & 31) * 255 // 31, ((v >> 5) & 63) * 255 // 63, (v & 31) * 255 // 31)


def gen_history(rng, mode, cursor_ops):
    bpp = MODES[mode][1]
    n = rng.randrange(1, 25)
    ops = []
    for i in range(n):
        r = rng.random()
        if ops and rng.random() < 0.08:
            # the application looks at the screen in between (capture / refresh / expect send a request): what was
            # received stays where it is until the server sends something else
            ops.append(("refresh", rng.randrange(2)))
            continue
        sent = [o for o in ops if o[0] in ("upd", "fill")]
        if sent and rng.random() < 0.15:
            # the server repaints what it has painted before, byte for byte (a window went away), or the same
            # bytes somewhere else / other bytes in the same place
            o = rng.choice(sent)
            k = rng.random()
            if k < 0.6:
                ops.append(o)
            elif k < 0.8:
                ops.append((o[0], o[1] + 1, o[2], *o[3:]))
            else:
                ops.append((*o[:5], bytes(b ^ 0x40 for b in o[5])))
            continue
        if r < 0.7 or i == 0 and r < 0.9:
            w, h = rng.choice([0, 1, 2, 3, 5, 9, 16]), rng.choice([0, 1, 2, 4, 7, 12])
            x, y = rng.choice([0, 0, 1, 2, 6, 15, 30]), rng.choice([0, 0, 1, 3, 8, 20])
            data = bytes(rng.getrandbits(8) for _ in range(w * h * bpp))
            ops.append(("upd", x, y, w, h, data))
        elif r < 0.85:
            ops.append(("resize", rng.choice([0, 1, 4, 10, 25, 40]), rng.choice([0, 1, 3, 9, 18, 30])))
        elif cursor_ops and r < 0.95:
            w, h = rng.choice([0, 1, 3, 8, 9]), rng.choice([0, 1, 2, 5])
            img = bytes(rng.getrandbits(8) for _ in range(w * h * bpp))
            mask = bytes(rng.getrandbits(8) for _ in range(((w + 7) // 8) * h))
            ops.append(("cursor", rng.randrange(0, 4), rng.randrange(0, 4), w, h, img, mask))
        else:
            w, h = rng.choice([1, 2, 6]), rng.choice([1, 3])
            ops.append(("fill", rng.choice([0, 3, 11]), rng.choice([0, 2, 7]), w, h, bytes(rng.getrandbits(8) for _ in range(bpp))))
    return ops


def run_real(mode, nocursor, ops, pseudocursor=False):
    c = vclient.VNCDoToolClient()
    c.factory = vclient.VNCDoToolFactory()
    c.factory.nocursor = nocursor
    c.factory.pseudocursor = pseudocursor          # --localcursor; with --nocursor the screen must still stay cursor-free
    c.image_mode = mode
    from twisted.internet.testing import StringTransport
    c.makeConnection(StringTransport())
    c.width, c.height = 16, 12
    flags = []
    for op in ops:
        try:
            if op[0] == "refresh":
                c.refreshScreen(bool(op[1]))
                c.deferred = None
            elif op[0] == "upd":
                c.updateRectangle(*op[1:])
            elif op[0] == "resize":
                c.updateDesktopSize(op[1], op[2])
            elif op[0] == "cursor":
                c.updateCursor(*op[1:])
            elif op[0] == "fill":
                c.fillRectangle(*op[1:])
            flags.append(0)
        except Exception:  # noqa: BLE001
            flags.append(1)
    scr = None if c.screen is None else (c.screen.size, c.screen.tobytes())
    return flags, scr


def reference(mode, ops):
    bpp = MODES[mode][1]
    cv = rfbgen.RefCanvas()
    for op in ops:
        if op[0] == "upd":
            _, x, y, w, h, data = op
            cv.put(x, y, w, h, [rgb_of(mode, data[i:i + bpp]) for i in range(0, w * h * bpp, bpp)])
        elif op[0] == "fill":
            _, x, y, w, h, c = op
            cv.put(x, y, w, h, [rgb_of(mode, c)] * (w * h))
        elif op[0] == "resize":
            cv.resize(op[1], op[2])
    return cv.tobytes()


def to_sx(op):
    if op[0] == "upd":
        return [0, op[1], op[2], op[3], op[4], op[5]]
    if op[0] == "resize":
        return [1, op[1], op[2]]
    if op[0] == "cursor":
        return [2, op[1], op[2], op[3], op[4], op[5], op[6]]
    return [3, op[1], op[2], op[3], op[4], op[5]]


def run(tier, seed, model):
    camp = common.Campaign()
    rng = random.Random(seed * 7919 + 12)
    n = 600 if tier == "quick" else 20000
    cases = []
    for i in range(n):
        mode = rng.choice(list(MODES))
        nocursor = rng.random() < 0.6
        cursor_ops = rng.random() < 0.5
        cases.append((mode, nocursor, gen_history(rng, mode, cursor_ops)))
    answers = None
    if model is not None:
        answers = model.call_many([("screen_ops", [nc, MODES[m][0], [to_sx(o) for o in ops if o[0] != "refresh"]]) for m, nc, ops in cases])
    for i, (mode, nocursor, ops) in enumerate(cases):
        camp.evaluations += 1
        pc = nocursor and (i % 2 == 0)
        camp.count("nocursor+localcursor" if pc else ("nocursor" if nocursor else "cursor-drawn"))
        flags, scr = run_real(mode, nocursor, ops, pc)
        for o in ops:
            camp.count(o[0])
        has_cursor = any(o[0] == "cursor" for o in ops)
        if nocursor or not has_cursor:
            camp.nontrivial.add(i)
            ref = reference(mode, ops)
            if any(flags) or scr != ref:
                camp.oracle_failures.append({"kind": "oracle", "property": "C12", "case": {
                    "mode": mode, "nocursor": nocursor, "ops": [[o[0]] + [x.hex() if isinstance(x, bytes) else x for x in o[1:]] for o in ops]},
                    "what": f"mode {mode}, nocursor={nocursor}, {len(ops)} ops: "
                            + ("an operation raised" if any(flags) else
                               f"screen {scr and scr[0]} differs from the composition of what was sent {ref and ref[0]}")})
                if len(camp.oracle_failures) >= 3:
                    break
        if answers is not None:
            mf, ms = answers[i][0], answers[i][1]
            mscr = None if not ms else ((ms[0], ms[1]), bytes(ms[2]))
            if list(mf) != [f for o, f in zip(ops, flags) if o[0] != "refresh"] or mscr != scr:
                camp.model_mismatches.append({"property": "C12", "case": {"mode": mode, "nocursor": nocursor, "n_ops": len(ops)},
                                              "what": f"mode {mode} nocursor={nocursor}: model flags {mf} / size {mscr and mscr[0]} vs "
                                                      f"client flags {flags} / size {scr and scr[0]}"})
        if len(camp.samples) < 4 and i % 151 == 0:
            camp.samples.append({"mode": mode, "nocursor": nocursor, "ops": [[o[0]] + [x if not isinstance(x, bytes) else f"{len(x)}B" for x in o[1:]] for o in ops[:6]]})
    far_edges(camp, rng)
    if not camp.oracle_failures:
        wire_histories(camp, rng)
    camp.rule = ("random histories of 1..24 updateRectangle / fillRectangle / updateDesktopSize / updateCursor calls on the real "
                 "VNCDoToolClient (first rectangle off the origin, rectangles beyond the image, overlaps, sizes incl. 0, resizes up "
                 "and down, every image mode, nocursor on/off); client.screen compared byte-exactly with the reference composition "
                 "(when no cursor is composited) and with the Coq screen model (always); non-trivial = history judged by the oracle")
    return camp


def wire_histories(camp, rng):
    """the same composition rule, driven through the wire (ServerInit, raw rectangles, DesktopSize pseudo-rectangles): the
    canvas is not tied to the announced size - rectangles beyond it grow it, a partial first update leaves it smaller - and a
    desktop-size announcement, also one that REPEATS the size announced before, gives the image exactly that size"""
    import struct
    fmt = rfbgen.RGB32

    def raw(x, y, w, h):
        vals = [rng.getrandbits(24) for _ in range(w * h)]
        return ("raw", x, y, w, h, vals)

    histories = [
        ((32, 24), [[raw(0, 0, 32, 24)], [raw(30, 20, 10, 10)], [("size", 32, 24)], [raw(1, 1, 2, 2)]]),
        ((32, 24), [[raw(0, 0, 8, 6)], [("size", 32, 24)]]),
        ((32, 24), [[raw(0, 0, 8, 6)], [("size", 20, 16)], [raw(18, 2, 8, 3)], [("size", 20, 16), raw(0, 0, 2, 2)]]),
        ((16, 12), [[("size", 24, 18)], [raw(2, 2, 3, 3)]]),
        ((16, 12), [[raw(0, 0, 16, 12)], [("size", 16, 12)], [("size", 8, 6)], [("size", 8, 6)], [raw(6, 4, 4, 4)], [("size", 8, 6)]]),
    ]
    for (w0, h0), msgs in histories:
        data = b"RFB 003.008\n\x01\x01\0\0\0\0" + struct.pack("!HH16sI", w0, h0, fmt.block(), 0)
        cv = rfbgen.RefCanvas()
        chunks = [data]
        for rects in msgs:
            m = b"\0\0" + struct.pack("!H", len(rects))
            for r in rects:
                if r[0] == "raw":
                    _, x, y, w, h, vals = r
                    m += struct.pack("!HHHHi", x, y, w, h, 0) + b"".join(fmt.pix(v) for v in vals)
                    cv.put(x, y, w, h, [fmt.rgb(v) for v in vals])
                else:
                    m += struct.pack("!HHHHi", 0, 0, r[1], r[2], -223)
                    cv.resize(r[1], r[2])
            chunks.append(m)
        cfg = rfbreal.Cfg(variant=1, nocursor=True, pseudodesktop=True)
        r = rfbreal.run_real(cfg, chunks)
        camp.evaluations += 1
        camp.count("wire-history")
        camp.nontrivial.add(("wire", (w0, h0), len(msgs)))
        ref = cv.tobytes()
        if r["final"][0] != "idle" or r["screen"] != ref:
            camp.oracle_failures.append({"kind": "oracle", "property": "C12", "case": {"wire_history": [[q[:5] for q in rects] for rects in msgs], "init": [w0, h0]},
                                         "what": f"ServerInit {w0}x{h0}, then {[[q[:5] if q[0] == 'raw' else q for q in rects] for rects in msgs]}: "
                                                 f"the client ends {r['final'][0]} with screen {r['screen'] and r['screen'][0]}, the composition of what "
                                                 f"was sent is {ref and ref[0]}"})
            return


def far_edges(camp, rng):
    """x, y, width and height are U16 each: a rectangle may end at 65535 + 65535; thin canvases keep this cheap"""
    def px(n, bpp=4):
        return bytes(rng.getrandbits(8) for _ in range(n * bpp))
    histories = [
        [("upd", 0, 0, 2, 2, px(4)), ("upd", 65531, 0, 4, 1, px(4)), ("upd", 65535, 0, 1, 1, px(1)), ("upd", 65532, 1, 4, 1, px(4)),
         ("upd", 3, 1, 2, 1, px(2))],
        [("upd", 65535, 3, 1, 1, px(1)), ("upd", 0, 0, 2, 1, px(2))],
        [("upd", 0, 0, 2, 2, px(4)), ("upd", 0, 65535, 1, 2, px(2)), ("fill", 1, 65534, 1, 3, px(1))],
        [("upd", 0, 0, 1, 1, px(1)), ("fill", 65534, 0, 2, 2, px(1)), ("upd", 65535, 1, 1, 1, px(1))],
        [("resize", 65535, 1), ("upd", 65535, 0, 3, 1, px(3))],
    ]
    for ops in histories:
        camp.evaluations += 1
        camp.count("far-edge-history")
        camp.nontrivial.add(("far", len(ops), ops[0][1:5]))
        flags, scr = run_real("RGBX", True, ops)
        ref = reference("RGBX", ops)
        if any(flags) or scr != ref:
            camp.oracle_failures.append({"kind": "oracle", "property": "C12", "case": {
                "mode": "RGBX", "nocursor": True, "ops": [[o[0]] + [x.hex() if isinstance(x, bytes) else x for x in o[1:]] for o in ops]},
                "what": f"rectangles reaching beyond coordinate 65535 ({[o[:5] for o in ops]}): "
                        + (f"operation #{flags.index(1)} raised" if any(flags) else
                           f"screen {scr and scr[0]} differs from the composition of what was sent {ref and ref[0]}")})
            return


def replay(payload):
    if "wire_history" in payload.get("case", {}):
        return True, "replay: wire-level history; re-run ./check C12"
    case = payload["case"]
    ops = [tuple([o[0]] + [bytes.fromhex(x) if isinstance(x, str) else x for x in o[1:]]) for o in case["ops"]]
    flags, scr = run_real(case["mode"], case["nocursor"], ops)
    ref = reference(case["mode"], ops)
    ok = not any(flags) and scr == ref
    return ok, ("replay: screen equals the composition" if ok else "replay: screen still differs from the composition")
