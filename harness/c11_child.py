"""One reactor lifetime for C11: real vncdotool.api with real threads against loopback servers.
stdin: JSON spec; stdout: one JSON line with the observations."""
import json
import os
import shutil
import sys
import tempfile
import threading
import time

TMP = tempfile.mkdtemp(prefix="c11-")

spec = json.load(sys.stdin)
sys.path.insert(0, spec["repo"])
sys.path.insert(0, spec["harness"])

from scripted_server import ScriptedServer, server_init  # noqa: E402
import struct  # noqa: E402

from twisted.internet import reactor  # noqa: E402
from twisted.internet.defer import Deferred  # noqa: E402

from vncdotool import api  # noqa: E402
from vncdotool.client import VNCDoToolClient, VNCDoToolFactory  # noqa: E402

LOG = []          # (client id, "start"/"finish", n) written on the reactor thread
LOCK = threading.Lock()


class ProbeClient(VNCDoToolClient):
    cid = None

    def _log(self, what, n):
        assert threading.current_thread().name.startswith("Twisted"), threading.current_thread().name
        LOG.append((self.factory.cid, what, n))

    def probe(self, n):
        self._log("start", n)
        self.keyPress(chr(97 + n % 26))
        self._log("finish", n)
        return n

    def probe_none(self, n):
        self._log("start", n)
        self._log("finish", n)
        return None

    def probe_fail(self, n):
        self._log("start", n)
        self._log("finish", n)
        raise ValueError(n)

    def probe_slow(self, n, delay):
        self._log("start", n)
        d = Deferred()

        def fire():
            self._log("finish", n)
            d.callback(n)
        reactor.callLater(delay, fire)
        return d

    def probe_slow_fail(self, n, delay):
        self._log("start", n)
        d = Deferred()

        def fire():
            self._log("finish", n)
            d.errback(ValueError(n))
        reactor.callLater(delay, fire)
        return d


def make_factory(cid):
    class F(VNCDoToolFactory):
        protocol = ProbeClient
    F.cid = cid
    return F


def hs(kind):
    if kind == "ok":
        return [("send", b"RFB 003.008\n"), ("recv", 12), ("send", b"\x01\x01"), ("recv", 1), ("send", b"\0\0\0\0"), ("recv", 1),
                ("send", server_init())]
    if kind == "slow":
        return [("sleep", 0.4)] + hs("ok")
    if kind == "needpw":
        return [("send", b"RFB 003.008\n"), ("recv", 12), ("send", b"\x01\x02"), ("recv", 1), ("send", bytes(16)), ("silent",)]
    if kind == "frames":
        return hs("ok") + [("frames", 0.3)]
    raise ValueError(kind)


results = {}
servers = {}
clients = {}
if spec.get("slow_start"):
    # the reactor thread is slow to come up (a loaded machine): calls made meanwhile wait for it, they are not refused
    reactor.addSystemEventTrigger("before", "startup", time.sleep, float(spec["slow_start"]))
for c in spec["clients"]:
    cid = c["id"]
    if c["server"] == "refuse":
        import socket
        s = socket.socket()
        s.bind(("127.0.0.1", 0))
        port = s.getsockname()[1]
        s.close()
        servers[cid] = None
    elif c["server"] == "unixstale":
        # a UNIX-domain socket path that exists but nobody listens on (a stale socket file)
        import socket
        path = os.path.join(TMP, "stale%s.sock" % cid)
        s = socket.socket(socket.AF_UNIX)
        s.bind(path)
        s.close()
        servers[cid] = None
        clients[cid] = api.connect(path, password=None, factory_class=make_factory(cid), timeout=spec.get("timeout", 8))
        continue
    else:
        servers[cid] = ScriptedServer(hs(c["server"]))
        port = servers[cid].port
    clients[cid] = api.connect("127.0.0.1::%d" % port, password=None, factory_class=make_factory(cid), timeout=spec.get("timeout", 8))


def drive(c, key="calls"):
    cid = c["id"]
    out = []
    cl = clients[cid]
    if key == "calls2":
        time.sleep(float(c.get("delay2", 0)))
    for call in c[key]:
        if call.get("sleep"):
            time.sleep(call["sleep"])
        t0 = time.time()
        try:
            if call["method"] == "capture":
                # the real captureScreen; the value is the number of the server reply the saved image shows
                path = os.path.join(TMP, "c%s_%d.png" % (cid, len(out)))
                cl.captureScreen(path)
                from PIL import Image
                r = Image.open(path).convert("RGB").getpixel((0, 0))[0] // 30
            elif call["method"] == "capture_bad":
                cl.captureScreen(os.path.join(TMP, "no-such-directory", "x.png"))
                r = "obj"
            else:
                r = getattr(cl, call["method"])(*call["args"])
            out.append(["ret", r if isinstance(r, (int, type(None))) else "obj", round(time.time() - t0, 3)])
        except ValueError as e:
            out.append(["raise", "ValueError", e.args[0] if e.args else None, round(time.time() - t0, 3)])
        except TimeoutError:
            out.append(["blocked", None, round(time.time() - t0, 3)])
        except Exception as e:  # noqa: BLE001
            out.append(["raise", type(e).__name__, None, round(time.time() - t0, 3)])
    results[cid if key == "calls" else "%s/2" % cid] = out


threads = [threading.Thread(target=drive, args=(c,)) for c in spec["clients"]]
threads += [threading.Thread(target=drive, args=(c, "calls2")) for c in spec["clients"] if c.get("calls2")]
for t in threads:
    t.start()
for t in threads:
    t.join(60)
for cl in clients.values():
    try:
        cl.disconnect()
    except Exception:  # noqa: BLE001
        pass
time.sleep(0.2)
api.shutdown()
received = {}
for cid, s in servers.items():
    if s is not None:
        s.thread.join(2)
        received[cid] = b"".join(b for conn in s.received for b in conn).hex()
shutil.rmtree(TMP, ignore_errors=True)
print(json.dumps({"results": results, "log": LOG, "received": received}))
