"""C11 - the synchronous API runs calls in order and gives each call its own outcome (real threads)."""
import json
import random
import subprocess
from concurrent.futures import ThreadPoolExecutor

import common

TRUSTED_BASE = ["Model/Api.v: the application thread / reactor thread / factory Deferred / result queue as a transition system, "
                "hand-written from api.py; Twisted's callFromThread FIFO, maybeDeferred and Deferred chaining are modelled, CPython's "
                "thread scheduling is sampled", "real vncdotool.api in child processes (one reactor lifetime each) against loopback servers"]
ASSUMPTIONS = ["PARTIAL by nature: the theorem covers every interleaving of the model's events; the real thread schedules are sampled",
               "one application thread per API client (calls on one client are made one after another, as the blocking API implies); "
               "timed-out calls excluded as documented"]

PY = "/venv/bin/python"


def gen_calls(rng, base, n):
    calls = []
    for k in range(n):
        i = base + k
        r = rng.random()
        sl = rng.choice([0, 0, 0, 0.05]) if k else rng.choice([0, 0.6])     # sometimes the first call comes after the connection is up
        if r < 0.35:
            calls.append({"method": "probe", "args": [i], "sleep": sl, "exp": ["ret", i], "async": 0})
        elif r < 0.5:
            calls.append({"method": "probe_none", "args": [i], "sleep": sl, "exp": ["ret", None], "async": 0})
        elif r < 0.65:
            calls.append({"method": "probe_fail", "args": [i], "sleep": sl, "exp": ["raise", i], "async": 0})
        elif r < 0.85:
            calls.append({"method": "probe_slow", "args": [i, rng.choice([0.05, 0.2, 0.5])], "sleep": sl, "exp": ["ret", i], "async": 1})
        else:
            calls.append({"method": "probe_slow_fail", "args": [i, rng.choice([0.05, 0.3])], "sleep": sl, "exp": ["raise", i], "async": 1})
    return calls


def run_child(spec):
    p = subprocess.run([PY, common.VERIF + "/harness/c11_child.py"], input=json.dumps(spec).encode(), stdout=subprocess.PIPE,
                       stderr=subprocess.PIPE, timeout=120)
    lines = [l for l in p.stdout.decode().splitlines() if l.startswith("{")]
    if not lines:
        return {"error": (p.stderr.decode() or p.stdout.decode())[-600:]}
    return json.loads(lines[-1])


def judge(spec, obs):
    if "error" in obs:
        return "the child process failed: " + obs["error"][-300:]
    for c in spec["clients"]:
        cid = str(c["id"])
        res = obs["results"].get(cid)
        if res is None or len(res) != len(c["calls"]):
            return f"client {cid}: {0 if res is None else len(res)} outcomes for {len(c['calls'])} calls"
        for k, (call, r) in enumerate(zip(c["calls"], res)):
            if c["server"] in ("refuse", "needpw", "unixstale"):
                want = {"refuse": ("ConnectionRefusedError", "ConnectError"), "needpw": ("AuthenticationError",),
                        "unixstale": ("ConnectionRefusedError", "ConnectError")}[c["server"]]
                if call["method"] == "disconnect":
                    if r[0] == "blocked" or r[-1] > 2.0:
                        return (f"client {cid} (connection cannot be established: {c['server']}), call #{k} disconnect: blocked "
                                f"{r[-1]} s - nothing may block on a client that never connected")
                    continue
                if r[0] != "raise" or r[1] not in want:
                    return (f"client {cid} (connection cannot be established: {c['server']}), call #{k} {call['method']}: "
                            f"{'blocked until the timeout' if r[0] == 'blocked' else r[:2]} - every call must raise the connection "
                            f"error ({' / '.join(want)})")
                continue
            if c["server"] == "frames":
                # the i-th capture call is answered by the server's i-th reply: a capture returns the screen of ITS update
                nth = 1 + sum(1 for cc in c["calls"][:k] if cc["method"] in ("capture", "capture_bad"))
                if call["method"] == "capture" and r[:2] != ["ret", nth]:
                    return (f"client {cid}, call #{k} captureScreen: "
                            + (f"the saved image shows server reply #{r[1]}, the reply to this call's own request is #{nth}"
                               if r[0] == "ret" else f"got {r[:2]}"))
                if call["method"] == "capture_bad" and r[0] != "raise":
                    return f"client {cid}, call #{k} captureScreen to a directory that does not exist: {r[:2]} - it must raise"
                if call["method"] in ("capture", "capture_bad"):
                    continue
            exp = call["exp"]
            if exp[0] == "raise_any":
                if r[0] != "raise":
                    return f"client {cid}, call #{k} {call['method']}{tuple(call['args'])}: got {r[:3]}, the message cannot carry these values: it must raise"
                continue
            if exp[0] == "ret":
                ok = r[0] == "ret" and r[1] == exp[1]
            else:
                ok = r[0] == "raise" and r[1] == "ValueError" and r[2] == exp[1]
            if not ok:
                return f"client {cid}, call #{k} {call['method']}{tuple(call['args'])}: got {r[:3]}, its own outcome is {exp}"
            if call["async"] and r[-1] < call["args"][1] - 0.02:
                return f"client {cid}, call #{k} {call['method']}: returned after {r[-1]} s, before its operation completed ({call['args'][1]} s)"
        if spec.get("kind") == "realops":
            import clientops
            # what each call stands for is not this property's business (C04, C05): the reference is the same tree's
            # own client driven directly, one call after the other, on an in-memory transport
            ops = [(call["method"], *call["args"]) for call in c["calls"] if call["method"] != "pause"]
            direct, _final = clientops.run_real(8, 8, False, False, ops)
            per_op = iter([[m for m in (clientops.parse_c2s(b) or []) if m[0] in ("KeyEvent", "PointerEvent")] if b is not None else []
                           for b in direct])
            want, durations = [], []
            for call in c["calls"]:
                if call["method"] == "pause":
                    durations.append(call["args"][0])
                    continue
                mine = next(per_op)
                want += mine
                durations.append(0.2 * (len(mine) - 1) if call["method"] == "mouseDrag" and mine else 0)
            wire = bytes.fromhex(obs["received"].get(cid, ""))[14:]
            msgs = clientops.parse_c2s(wire)
            got = None if msgs is None else [m for m in msgs if m[0] in ("KeyEvent", "PointerEvent")]
            if got != want:
                k = next((i for i, (a, b) in enumerate(zip(got or [], want)) if a != b), min(len(got or []), len(want)))
                return (f"client {cid}: the server received {len(got or [])} key/pointer messages, the calls made are {len(want)}; first difference at "
                        f"#{k}: received {(got or [None] * (k + 1))[k] if got and k < len(got) else None}, call order says {want[k] if k < len(want) else None} "
                        f"(calls: {[cc['method'] for cc in c['calls']]})")
            for k, (call, r, dur) in enumerate(zip(c["calls"], res, durations)):
                if r[-1] < dur - 0.05:
                    return (f"client {cid}, call #{k} {call['method']}{tuple(call['args'])}: returned after {r[-1]} s, its operation takes {dur:.1f} s "
                            f"(a call returns only after its own operation has completed)")
        if c["server"] in ("ok", "slow", "frames"):
            # executed on the reactor one at a time, in call order
            log = [(w, n) for cc, w, n in obs["log"] if str(cc) == cid]
            want = [x for call in c["calls"] if call["method"].startswith("probe")
                    for x in (("start", call["args"][0]), ("finish", call["args"][0]))]
            if log != want:
                k = next((j for j, (a, b) in enumerate(zip(log, want)) if a != b), min(len(log), len(want)))
                return f"client {cid}: operations on the reactor ran as {log[max(0, k - 2):k + 3]}, the calls were made as {want[max(0, k - 2):k + 3]}"
    return None


def run(tier, seed, model):
    camp = common.Campaign()
    rng = random.Random(seed * 7919 + 11)
    n = 15 if tier == "quick" else 120
    specs = []
    for i in range(n):
        kinds = ["one", "two", "refuse", "needpw", "mixed", "burst", "frames", "unixstale", "straddle", "realops", "slowstart", "two", "one", "burst", "frames"]
        kind = kinds[i] if i < len(kinds) else rng.choice(kinds)
        clients = []
        if kind == "burst":
            # hundreds of fast calls back to back: a result that is ready before the caller starts to wait must not be lost
            calls = [{"method": "probe", "args": [1000 + k], "sleep": 0, "exp": ["ret", 1000 + k], "async": 0} for k in range(400)]
            clients.append({"id": 1, "server": "ok", "calls": calls})
        elif kind == "one":
            clients.append({"id": 1, "server": rng.choice(["ok", "slow"]), "calls": gen_calls(rng, 100, rng.randrange(3, 14))})
        elif kind == "two":
            clients.append({"id": 1, "server": rng.choice(["ok", "slow"]), "calls": gen_calls(rng, 100, rng.randrange(3, 10))})
            clients.append({"id": 2, "server": rng.choice(["ok", "slow"]), "calls": gen_calls(rng, 500, rng.randrange(3, 10))})
        elif kind == "realops":
            # the library's own operations (some of them asynchronous: drag, pause), judged at the server: the bytes of call k
            # are all on the wire before those of call k+1
            calls = []
            pos = (0, 0)
            for _ in range(rng.randrange(4, 9)):
                r_ = rng.random()
                if r_ < 0.3:
                    # at most 7 steps of 0.2 s: well inside the proxy's 4 s per-call timeout (timed-out calls are excluded)
                    x = max(0, min(40, pos[0] + rng.randrange(-7, 8)))
                    y = max(0, min(40, pos[1] + rng.randrange(-7, 8)))
                    calls.append({"method": "mouseDrag", "args": [x, y, rng.choice([1, 2])], "sleep": 0, "exp": ["ret", "obj"], "async": 0})
                    pos = (x, y)
                elif r_ < 0.5:
                    calls.append({"method": rng.choice(["mouseDown", "mouseUp", "mousePress"]), "args": [rng.randrange(1, 4)], "sleep": 0, "exp": ["ret", "obj"], "async": 0})
                elif r_ < 0.7:
                    pos = (rng.randrange(0, 40), rng.randrange(0, 40))
                    calls.append({"method": "mouseMove", "args": list(pos), "sleep": 0, "exp": ["ret", "obj"], "async": 0})
                elif r_ < 0.85:
                    calls.append({"method": "keyPress", "args": [rng.choice(["a", "b", "enter", "ctrl-c"])], "sleep": 0, "exp": ["ret", "obj"], "async": 0})
                else:
                    calls.append({"method": "pause", "args": [rng.choice([0.1, 0.3])], "sleep": 0, "exp": ["ret", "obj"], "async": 0})
            if not any(cc["method"] == "mouseDrag" and cc["args"][:2] != [0, 0] for cc in calls):
                # as the very first call: three steps from the origin (anywhere later it could be a long way from the pointer)
                calls.insert(0, {"method": "mouseDrag", "args": [3, 0, 1], "sleep": 0, "exp": ["ret", "obj"], "async": 0})
            # calls that fail in the middle (a button / a coordinate the message cannot carry): they raise, and the calls
            # after them behave as if they had not been made
            for bad in rng.sample([("mouseDown", [9]), ("mouseMove", [70000, 3]), ("mousePress", [12]), ("mouseMove", [5, -1])], rng.randrange(1, 3)):
                calls.insert(rng.randrange(1, len(calls) + 1), {"method": bad[0], "args": bad[1], "sleep": 0, "exp": ["raise_any", None], "async": 0})
            calls.append({"method": "keyPress", "args": ["z"], "sleep": 0, "exp": ["ret", "obj"], "async": 0})
            clients.append({"id": 1, "server": "ok", "calls": calls})
        elif kind == "slowstart":
            # the very first calls of the process are made while the reactor thread is still starting
            calls = gen_calls(rng, 100, rng.randrange(3, 7))
            for cc in calls[:2]:
                cc["sleep"] = 0
            clients.append({"id": 1, "server": "ok", "calls": calls})
        elif kind == "straddle":
            # api.connect(timeout=T) bounds each CALL: an operation in flight T seconds after the connection was made is not
            # affected by that instant
            calls = gen_calls(rng, 100, 2)
            calls.append({"method": "probe_slow", "args": [777, 1.6], "sleep": 3.0, "exp": ["ret", 777], "async": 1})
            calls += gen_calls(rng, 200, 2)
            clients.append({"id": 1, "server": "ok", "calls": calls})
        elif kind in ("refuse", "needpw", "unixstale"):
            # several calls, among them real API operations that do not touch the client object much (pause)
            calls = gen_calls(rng, 100, 3)
            calls.insert(rng.randrange(1, 4), {"method": "pause", "args": [0.01], "sleep": 0, "exp": ["raise", None], "async": 0})
            calls.append({"method": "keyPress", "args": ["a"], "sleep": 0, "exp": ["raise", None], "async": 0})
            # ... and giving up on the client must not block either
            calls.append({"method": "disconnect", "args": [], "sleep": 0, "exp": ["raise", None], "async": 0})
            clients.append({"id": 1, "server": kind, "calls": calls})
        elif kind == "frames":
            # captures against a server that answers each request 0.3 s later with a frame telling which request it answers;
            # failing captures (unwritable destination) in between must not shift the later ones
            calls = []
            for k in range(rng.randrange(3, 6)):
                calls.append({"method": rng.choice(["capture", "capture", "capture_bad"]) if k else rng.choice(["capture", "capture_bad"]),
                              "args": [], "sleep": 0, "exp": ["ret", None], "async": 1})
                if rng.random() < 0.4:
                    calls += gen_calls(rng, 100 + 10 * k, 1)
            if not any(cc["method"] == "capture_bad" for cc in calls[:-1]):
                calls.insert(0, {"method": "capture_bad", "args": [], "sleep": 0, "exp": ["ret", None], "async": 1})
            calls.append({"method": "capture", "args": [], "sleep": 0, "exp": ["ret", None], "async": 1})
            clients.append({"id": 1, "server": "frames", "calls": calls})
        else:
            clients.append({"id": 1, "server": "ok", "calls": gen_calls(rng, 100, rng.randrange(3, 8))})
            clients.append({"id": 2, "server": rng.choice(["refuse", "needpw"]), "calls": gen_calls(rng, 500, 3)})
        specs.append({"repo": common.REPO, "harness": common.VERIF + "/harness", "clients": clients, "timeout": 4, "kind": kind,
                      "slow_start": 0.7 if kind == "slowstart" else 0})
    with ThreadPoolExecutor(max_workers=8) as ex:
        obs = list(ex.map(run_child, specs))
    reqs, meta = [], []
    for i, (spec, ob) in enumerate(zip(specs, obs)):
        camp.evaluations += 1
        camp.count("lifetime:" + spec["kind"])
        camp.count("calls", sum(len(c["calls"]) for c in spec["clients"]))
        camp.nontrivial.add(i)
        why = judge(spec, ob)
        if why:
            camp.oracle_failures.append({"kind": "oracle", "property": "C11", "case": {"spec": {k: v for k, v in spec.items() if k == "clients"}},
                                         "what": f"reactor lifetime #{i} ({spec['kind']}): {why}"})
            if len(camp.oracle_failures) >= 3:
                break
            continue
        # the model on a straightforward schedule of the same calls: same delivered outcomes
        for c in spec["clients"]:
            if c["server"] == "frames" or spec["kind"] == "realops":
                continue
            mcalls = [call for call in c["calls"] if call["method"] != "disconnect"]
            ops = [[call["async"], (call["exp"][1] if call["exp"][1] is not None else 0) * (1 if call["exp"][0] == "ret" else -1)]
                   for call in mcalls]
            up = c["server"] in ("ok", "slow")
            if c["server"] == "unixstale":
                continue
            evs = [3 if up else 4]
            for call in mcalls:
                evs += [0, 2] + ([5] if (call["async"] and up) else []) + [1]
            rng.shuffle(evs[:1])
            reqs.append(("api_run", [len(ops), ops, evs]))
            meta.append((i, c, ob["results"][str(c["id"])], up))
    if model is not None and reqs:
        for ans, (i, c, res, up) in zip(model.call_many(reqs), meta):
            delivered = [tuple(x) for x in ans[0]]
            want = []
            for k, (call, r) in enumerate(zip([cc for cc in c["calls"] if cc["method"] != "disconnect"], res)):
                if not up:
                    want.append((k, -1000))
                else:
                    v = call["exp"][1] if call["exp"][1] is not None else 0
                    want.append((k, v if call["exp"][0] == "ret" else -v))
            if delivered != want:
                camp.model_mismatches.append({"property": "C11", "case": {"lifetime": i, "client": c["id"]},
                                              "what": f"lifetime #{i} client {c['id']}: model delivers {delivered[:6]}, the API {want[:6]}"})
    camp.rule = ("reactor lifetimes in child processes: real api.connect with a probe client class (fast, None-returning, failing, slow "
                 "and slow-failing operations with distinguishable results), one or two API clients driven from separate application "
                 "threads against loopback servers (prompt, slow to accept, refusing, demanding a password that is not given), calls "
                 "issued before and after the connection is up with random sleeps; judged: each call's value/exception is its own, slow "
                 "calls return only after completion, the reactor-side start/finish log is strictly sequential in call order, "
                 "unconnectable clients raise on every call; the model's delivered outcomes compared; non-trivial = lifetime")
    return camp


def replay(payload):
    spec = payload["case"].get("spec")
    if not spec:
        return True, "replay: model-only case; re-run ./check C11"
    full = {"repo": common.REPO, "harness": common.VERIF + "/harness", "clients": spec["clients"], "timeout": 6, "kind": "replay"}
    ob = run_child(full)
    why = judge(full, ob)
    return why is None, f"replay: {why or 'every call got its own outcome'}"
