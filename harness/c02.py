"""C02 - every supported encoding reproduces the server framebuffer exactly."""
import random
import struct
import zlib

import common
import rfbgen
import rfbreal
from rfbcamp import Batch, case_payload, cfg_from_payload, trim
from rfbreal import Cfg, run_real

TRUSTED_BASE = ["harness/rfbgen.py: RFC 6143 §7.7 encoders and the reference canvas, written by hand, independent of the client",
                "Model/Rfb.v decoders hand-written; formats regenerated", "zlib (tape), Pillow frombytes/paste (modelled in Model/Image.v)"]
ASSUMPTIONS = ["hextile colours are carried over from the last tile as RFC 6143 7.7.4 says, also across raw tiles (half of the generated "
               "streams rely on it, half re-specify as libvncserver does); a conforming encoder re-specifies the foreground after a "
               "coloured-subrects tile (the strict reading: the client carries the last subrectangle's colour on instead)",
               "with a local cursor the comparison is on callbacks only (cursor compositing is the option's effect)"]
EXTRA_VO = ["Proofs/RfbTieMessages.vo"]


def paint_events(fmt, events):
    """denote the decode callbacks of the base client as a canvas (independent of PIL)"""
    cv = rfbgen.RefCanvas()
    for e in events:
        if e[0] == "Upd":
            _, x, y, w, h, data = e
            bp = fmt.bypp
            px = [fmt.rgb(int.from_bytes(data[i:i + bp], "big" if fmt.big else "little")) for i in range(0, w * h * bp, bp)]
            if len(px) == w * h:
                cv.put(x, y, w, h, px)
        elif e[0] == "Fill":
            _, x, y, w, h, c = e
            cv.put(x, y, w, h, [fmt.rgb(int.from_bytes(c, "big" if fmt.big else "little"))] * (w * h))
        elif e[0] == "DesktopSize":
            cv.resize(e[1], e[2])
    return cv


def judge(variant, cfg, s, r):
    ev = r["events"]
    if r["final"][0] != "idle":
        return f"client ended {r['final'][:2]} on a valid stream"
    if r["final"][1] != 0:
        return f"{r['final'][1]} byte(s) of the stream left unconsumed / over-consumed framing (awaiting {r['final'][2]})"
    if not ev or ev[-1] != ("Bell",):
        return f"the Bell that follows the updates was not seen last (last events {trim(ev[-3:])})"
    commits = [e[1] for e in ev if e[0] == "Commit"]
    want = [rects for (k, *rest) in s.messages if k == "fbu" for rects in rest if rects]
    if commits != want:
        return f"commitUpdate calls {commits[:4]} differ from the updates sent {want[:4]}"
    if sum(1 for e in ev if e[0] == "Bell") != 1 + sum(1 for m in s.messages if m[0] == "bell"):
        return "number of Bell callbacks differs from the Bell messages sent"
    copies = [e for e in ev if e[0] == "Copy"]
    if len(copies) != s.notes.get("copyrect", 0):
        return f"{len(copies)} copyRectangle callbacks for {s.notes.get('copyrect', 0)} CopyRect rectangles"
    expect = s.canvas.tobytes()
    if variant == 0:
        got = paint_events(s.fmt, ev).tobytes()
        if got != expect:
            return ("pixels handed to updateRectangle/fillRectangle do not reproduce the server framebuffer "
                    f"(sizes {got and got[0]} vs {expect and expect[0]})")
    elif not (s.cursor_sent and not cfg.nocursor):
        if r["screen"] != expect:
            return ("client.screen differs from the server framebuffer "
                    f"(sizes {r['screen'] and r['screen'][0]} vs {expect and expect[0]}, encodings {dict(s.notes)})")
    return None


def findings_stream(camp):
    """re-confirm the two recorded ZRLE defects on the real client"""
    pf = rfbgen.RGB32
    hs = b"RFB 003.008\n\x01\x01\0\0\0\0" + struct.pack("!HH16sI", 8, 8, pf.block(), 0)
    # (a) packed palette, tile 3x2, two colours: rows are byte aligned in RFC 6143
    tile = bytes([2]) + b"\x10\x20\x30" + b"\xa0\xb0\xc0" + bytes([0b10100000, 0b01000000])
    co = zlib.compressobj()
    comp = co.compress(tile) + co.flush(zlib.Z_SYNC_FLUSH)
    msg = b"\0\0\0\x01" + struct.pack("!HHHHi", 0, 0, 3, 2, 16) + struct.pack("!I", len(comp)) + comp + b"\x02"
    r = run_real(Cfg(variant=1, nocursor=True), [hs + msg])
    want = bytes([0xa0, 0xb0, 0xc0, 0x10, 0x20, 0x30, 0xa0, 0xb0, 0xc0, 0x10, 0x20, 0x30, 0xa0, 0xb0, 0xc0, 0x10, 0x20, 0x30])
    if r["final"][0] != "idle" or r["screen"] != ((3, 2), want):
        camp.known_hits.append("ZRLE packed-palette tile 3x2 (rows byte-aligned per RFC 6143) is decoded as one bit string: "
                               f"client ends {r['final'][0]} (finding zrle-packed-rows)")
    # (b) BGR16 in force (Apple 3.889 + unrenderable native format): ZRLE CPIXEL is 2 bytes
    hs2 = b"RFB 003.889\n\x01\x01\0\0\0\0" + struct.pack("!HH16sI", 8, 8, rfbgen.UNACCEPTED[0].block(), 0)
    tile2 = bytes([1]) + struct.pack("<H", 0xF800)
    co = zlib.compressobj()
    comp2 = co.compress(tile2) + co.flush(zlib.Z_SYNC_FLUSH)
    msg2 = b"\0\0\0\x01" + struct.pack("!HHHHi", 0, 0, 2, 2, 16) + struct.pack("!I", len(comp2)) + comp2 + b"\x02"
    r2 = run_real(Cfg(variant=1, nocursor=True), [hs2 + msg2])
    if r2["final"][0] != "idle" or r2["screen"] != ((2, 2), bytes([255, 0, 0] * 4)):
        camp.known_hits.append("ZRLE under a 16-bit pixel format (BGR16, selected for Apple servers): 2-byte CPIXELs are read as "
                               f"3 bytes: client ends {r2['final'][0]} (finding zrle-non32bpp)")


def run(tier, seed, model):
    camp = common.Campaign()
    rng = random.Random(seed * 7919 + 2)
    n = 260 if tier == "quick" else 6000
    batch = Batch(model, camp, "C02")
    for i in range(n):
        variant = rng.choice([0, 1, 1, 1])
        enc_focus = rng.choice([None, None, ["raw"], ["rre"], ["corre"], ["hextile"], ["zrle"], ["copyrect", "raw"]])
        native = rng.choice(rfbgen.ACCEPTED) if rng.random() < 0.85 else rng.choice(rfbgen.UNACCEPTED)
        s = rfbgen.gen_session(rng, variant, None, want_success=True, native=native, nmsgs=rng.choice([1, 2, 3, 4]),
                               encodings=enc_focus, version=rng.choice([(3, 3), (3, 7), (3, 8), (3, 889), (4, 1)]))
        if not s.established:
            continue
        if variant == 0 and (not s.fmt.true or s.fmt.rmax == 0):
            continue                       # colour-map formats: no RGB meaning to compare
        s.add(b"\x02")                     # the message that follows must be interpreted correctly
        cfg = Cfg(variant=variant, nocursor=rng.random() < 0.6, pseudocursor=rng.random() < 0.3)
        data = bytes(s.data)
        chs = [[data]]
        if len(data) > 4:
            cuts = sorted(rng.sample(range(1, len(data)), min(3, len(data) - 1)))
            chs.append([data[a:b] for a, b in zip([0] + cuts, cuts + [len(data)])])
        for k, v in s.notes.items():
            camp.count(k, v)
        camp.count("fmt:%d/%d/%d" % (s.fmt.bpp, s.fmt.rs, s.fmt.bs))
        tape = None
        for chunks in chs:
            camp.evaluations += 1
            r = run_real(cfg, chunks)
            if tape is None:
                tape = r["tape"]
            if s.findings:
                camp.count("in-known-finding-domain")
            else:
                camp.nontrivial.add((i, len(chunks)))
                why = judge(variant, cfg, s, r)
                if why:
                    camp.oracle_failures.append({"kind": "oracle", "property": "C02",
                                                 "case": case_payload(cfg, chunks, {"encodings": dict(s.notes), "fmt": list(s.fmt.t)}),
                                                 "what": f"{['base', 'library'][min(variant, 1)]} client, format {s.fmt.t}: {why}"})
                    break
            batch.add(cfg, chunks, tape, r, variant != 0, "main")
        if len(camp.samples) < 5 and i % 53 == 0:
            camp.samples.append({"variant": variant, "format": list(s.fmt.t), "encodings": dict(s.notes), "bytes": len(data)})
        if len(camp.oracle_failures) >= 3:
            break
    findings_stream(camp)
    batch.resolve(camp, "C02")
    if not camp.oracle_failures:
        long_updates(camp, rng)
    if not camp.oracle_failures:
        # several sessions in one process, formats differing only in channel order, the same wire bytes as raw pixels and fills
        import c13
        c13.session_sequences(camp, rng, 10 if tier == "quick" else 200, pid="C02")
    if model is not None:
        theorem_samples(camp, model, rng, 40 if tier == "quick" else 1500)
        zrle_theorem_samples(camp, model, rng, 30 if tier == "quick" else 600)
    camp.rule = ("random framebuffer contents (palettes of 1..200 colours and noise) encoded by an RFC 6143 encoder written "
                 "independently of the client: Raw, CopyRect, RRE, CoRRE (with decoy sub-rectangles), Hextile (raw/solid/fg/"
                 "coloured tiles, carried background), ZRLE (raw/solid/packed/plain RLE/palette RLE, persistent zlib stream), "
                 "cursor, desktop-size, last-rect, QEMU key pseudo rectangles; sizes 0..140 incl. non-multiples of 16/64; all 5 "
                 "accepted formats (and the fallback after SetPixelFormat); 1..4 messages then a Bell; whole and 4-chunk delivery; "
                 "judged: screen == reference canvas, commit lists, exact consumption, Bell last; compared with the Coq model; "
                 "non-trivial = session outside the two recorded ZRLE findings; plus THEOREM SAMPLES: random rectangles in the "
                 "domain of C02_update_mixed_encodings (qspec/qok) whose bytes (qwire) and promised callbacks (qevents) come from "
                 "the extracted Coq spec and are fed to the real client - the theorem statements are checked against the "
                 "implementation, not only against the model")
    return camp


def long_updates(camp, rng):
    """hundreds of decode steps inside ONE received segment (a hextile rectangle of 17x17 tiles; an update of 300 small raw
    rectangles): the framebuffer must be reproduced however many tiles or rectangles a segment carries"""
    from collections import Counter
    fmt = rfbgen.RGB32
    W = H = 272
    hs = b"RFB 003.008\n\x01\x01\0\0\0\0" + struct.pack("!HH16sI", W, H, fmt.block(), 0)
    cols = [0x102030, 0x405060, 0x0000FF]
    rows = [[cols[((x // 16) + (y // 16)) % 2] if (x % 16, y % 16) != (3, 4) else cols[2] for x in range(W)] for y in range(H)]
    stats = Counter()
    hexrect = struct.pack("!HHHHi", 0, 0, W, H, 5) + rfbgen.enc_hextile(fmt, rows, rng, stats)
    streams = [("a hextile rectangle of 289 tiles", b"\0\0\0\x01" + hexrect, rows)]
    canvas = [[0] * 64 for _ in range(64)]
    body = b""
    for _ in range(300):
        x, y, v = rng.randrange(62), rng.randrange(63), rng.getrandbits(24)
        canvas[y][x] = canvas[y][x + 1] = v
        body += struct.pack("!HHHHi", x, y, 2, 1, 0) + fmt.pix(v) * 2
    full = struct.pack("!HHHHi", 0, 0, 64, 64, 0) + b"\0" * (64 * 64 * 4)
    streams.append(("an update of 301 raw rectangles", b"\0\0" + struct.pack("!H", 301) + full + body, canvas))
    for name, msg, want_rows in streams:
        cfg = Cfg(variant=1, nocursor=True)
        r = run_real(cfg, [hs, msg + b"\x02"])
        camp.evaluations += 1
        camp.count("long-update")
        camp.nontrivial.add(("long", name))
        hh, ww = len(want_rows), len(want_rows[0])
        want = b"".join(bytes(fmt.rgb(v)) for row in want_rows for v in row)
        got = r["screen"]
        why = None
        if r["final"][0] != "idle" or r["final"][1] != 0:
            why = f"the client ends {r['final'][:2]}"
        elif not r["events"] or r["events"][-1] != ("Bell",):
            why = "the Bell behind the update was not seen"
        elif got is None or got[0] != (max(ww, 0), hh) and got[0] != (W, H):
            why = f"screen size {got and got[0]}"
        else:
            from PIL import Image
            im = Image.frombytes("RGB", got[0], got[1]).crop((0, 0, ww, hh)).tobytes()
            if im != want:
                why = "the screen differs from the framebuffer the server encoded"
        if why:
            camp.oracle_failures.append({"kind": "oracle", "property": "C02", "case": {"long_update": name},
                                         "what": f"{name} delivered in one segment: {why}"})
            return


# ----------------------------------------------------------------------------------------------------------------
# the STATEMENTS of the C02 theorems sampled against the implementation: rectangles as the theorems quantify over them
# (qspec: Raw / CopyRect / RRE / CoRRE / Hextile tiles / cursor, satisfying qok) -> the extracted Coq spec gives the
# bytes a server writes (qwire) and the callbacks promised (qevents) -> the REAL client is fed those bytes

def _px(rng, n=1):
    return [rng.getrandbits(8) for _ in range(4 * n)]


def gen_hextile(rng):
    w, h = rng.choice([1, 5, 16, 17, 33]), rng.choice([1, 3, 16, 20])
    x, y = rng.randrange(0, 8), rng.randrange(0, 8)
    tiles = []
    bg = fg = False          # what a later tile may rely on (HextileP.next_bg / next_fg)
    for ty in range(0, h, 16):
        for tx in range(0, w, 16):
            tw, th = min(16, w - tx), min(16, h - ty)
            r = rng.random()
            if r < 0.25:
                tiles.append([0, _px(rng, tw * th)])
                continue                                      # colours survive a raw tile
            bgo = [_px(rng)] if (not bg or rng.random() < 0.4) else []
            bg = True
            kind = rng.choice([0, 1, 1, 2, 2])
            fgo = [_px(rng)] if (kind != 2 and rng.random() < 0.5) or (kind == 1 and not fg) else []
            if kind == 2 and fgo:
                fgo = []                                      # ForegroundSpecified excludes SubrectsColoured
            def hsub():
                sx, sy = rng.randrange(0, tw), rng.randrange(0, th)
                return [sx, sy, rng.randrange(1, tw - sx + 1), rng.randrange(1, th - sy + 1)]
            n = rng.choice([0, 1, 2, 5])
            if kind == 0:
                tiles.append([1, bgo, fgo, 0])
                fg = fg or bool(fgo)
            elif kind == 1:
                tiles.append([1, bgo, fgo, 1, [hsub() for _ in range(n)]])
                fg = fg or bool(fgo)
            else:
                tiles.append([1, bgo, fgo, 2, [[_px(rng), hsub()] for _ in range(n)]])
                fg = False                                    # not relied upon after coloured subrectangles
    return [4, x, y, w, h, tiles], (x, y, w, h)


def gen_qspecs(rng):
    rs, pos = [], []
    for _ in range(rng.randrange(1, 7)):
        k = rng.choice([0, 1, 2, 3, 4, 4, 5])
        x, y = rng.randrange(0, 30), rng.randrange(0, 20)
        w, h = rng.choice([0, 1, 2, 5]), rng.choice([0, 1, 3, 4])
        if k == 0:
            rs.append([0, x, y, w, h, _px(rng, w * h)])
        elif k == 1:
            rs.append([1, x, y, w, h, rng.randrange(0, 30), rng.randrange(0, 20)])
        elif k in (2, 3):
            lim = 300 if k == 2 else 256          # (canvases of 65536 columns make Pillow, not the check, slow)
            subs = [[_px(rng), rng.choice([0, 1, 3, lim - 1]), rng.choice([0, 2, lim - 1]), rng.choice([0, 1, 4]), rng.choice([0, 1, 2])]
                    for _ in range(rng.choice([0, 0, 1, 3, 6]))]
            rs.append([k, x, y, w, h, _px(rng), subs])
        elif k == 4:
            q, p = gen_hextile(rng)
            rs.append(q)
            pos.append(p)
            continue
        else:
            rs.append([5, rng.randrange(0, 4), rng.randrange(0, 4), w, h, _px(rng, w * h),
                       [rng.getrandbits(8) for _ in range(((w + 7) // 8) * h)]])
            x, y = rs[-1][1], rs[-1][2]
        pos.append((x, y, w, h))
    return rs, pos


def theorem_samples(camp, model, rng, n):
    cases = [gen_qspecs(rng) for _ in range(n)]
    answers = model.call_many([("spec_update", rs) for rs, _ in cases])
    hs = b"RFB 003.008\n\x01\x01\0\0\0\0" + struct.pack("!HH16sI", 64, 48, rfbgen.RGB32.block(), 0)
    for (rs, pos), ans in zip(cases, answers):
        wire = bytes(ans[0])
        want, _ = rfbreal.canon_model([ans[1], [2]])
        want = want + [("Commit", [tuple(p) for p in pos]), ("Bell",)]
        data = hs + wire + b"\x02"
        cut = rng.randrange(len(hs), len(data))
        for chunks in ([data], [data[:cut], data[cut:]]):
            cfg = Cfg(variant=1, nocursor=rng.random() < 0.5)
            r = run_real(cfg, chunks)
            camp.evaluations += 1
            camp.count("theorem-sample")
            for q in rs:
                camp.count("theorem-sample:" + ["raw", "copyrect", "rre", "corre", "hextile", "cursor"][q[0]])
            camp.nontrivial.add(("thm", len(wire), wire[:24], len(chunks)))
            evs = r["events"]
            b = next((i for i, e in enumerate(evs) if e == ("Begin",)), None)
            got = evs[b:] if b is not None else []
            if r["final"][0] != "idle" or got != want:
                k = next((i for i, (a, c) in enumerate(zip(got, want)) if a != c), min(len(got), len(want)))
                camp.oracle_failures.append({"kind": "oracle", "property": "C02", "case": case_payload(cfg, chunks, {"spec": "qupdate_roundtrip"}),
                                             "what": f"an update written as the C02 theorems say ({[q[0] for q in rs]} = kinds of its rectangles): the "
                                                     f"client ends {r['final'][:2]}; callback #{k}: promised {trim([want[k]]) if k < len(want) else None}, "
                                                     f"made {trim([got[k]]) if k < len(got) else None}"})
                return


def _cpx(rng):
    return [rng.getrandbits(8) for _ in range(3)]


def _runlen(rng, n):
    """n >= 1 as (k, r) with n = 255 k + r + 1, r < 255"""
    return (n - 1) // 255, (n - 1) % 255


def _split(rng, n):
    """n >= 1 as a list of positive parts"""
    parts = []
    while n:
        k = rng.choice([1, 1, 2, rng.randrange(1, n + 1), n]) if n > 1 else 1
        k = min(k, n)
        parts.append(k)
        n -= k
    return parts


def gen_ztile(rng, tw, th):
    """one tile, inside what ztile_ok asks of it (packed tiles only when their rows need no padding)"""
    pixels = tw * th
    kinds = [0, 1, 2, 3]
    kind = rng.choice(kinds + [4, 4])
    if kind == 4:
        n = rng.choice([2, 2, 3, 4, 5, 9, 16])
        bits = 1 if n == 2 else 2 if n <= 4 else 4
        if (tw * bits) % 8 and th != 1:
            kind = rng.choice(kinds)
        else:
            per = 8 // bits
            idx = [rng.randrange(n) for _ in range(pixels)] + [0] * ((-pixels) % per)
            bs = []
            for i in range(0, len(idx), per):
                b = 0
                for v in idx[i:i + per]:
                    b = (b << bits) | v
                bs.append(b)
            return [4, [_cpx(rng) for _ in range(n)], bs]
    if kind == 0:
        return [0, [_cpx(rng) for _ in range(pixels)]]
    if kind == 1:
        return [1, _cpx(rng)]
    if kind == 2:
        return [2, [[_cpx(rng), *_runlen(rng, n)] for n in _split(rng, pixels)]]
    n = rng.choice([2, 3, 17, 127])
    items = []
    for m in _split(rng, pixels):
        if m == 1 and rng.random() < 0.7:
            items.append([0, rng.randrange(n)])
        else:
            items.append([1, rng.randrange(n), *_runlen(rng, m)])
    return [3, [_cpx(rng) for _ in range(n)], items]


def gen_zrect(rng):
    w = rng.choice([1, 8, 16, 64, 65, 72, 130])
    h = rng.choice([1, 2, 64, 66])
    x, y = rng.randrange(0, 300 - w), rng.randrange(0, 200 - h)
    tiles = []
    for ty in range(y, y + h, 64):
        for tx in range(x, x + w, 64):
            tiles.append(gen_ztile(rng, min(64, x + w - tx), min(64, y + h - ty)))
    return [x, y, w, h, tiles]


def zrle_theorem_samples(camp, model, rng, n):
    """C02_zrle_roundtrip sampled: the tile stream the theorem speaks of is deflated here (one stream per connection) and
    sent to the real client, which has to make exactly the callbacks [zevents] promises."""
    import zlib
    cases = [[gen_zrect(rng) for _ in range(rng.choice([1, 1, 2, 3]))] for _ in range(n)]
    flat = [r for c in cases for r in c]
    answers = iter(model.call_many([("spec_zrle", r) for r in flat]))
    hs = b"RFB 003.008\n\x01\x01\0\0\0\0" + struct.pack("!HH16sI", 300, 200, rfbgen.RGB32.block(), 0)
    names = ["raw", "solid", "plain-rle", "palette-rle", "packed"]
    for rects in cases:
        z = zlib.compressobj()
        wire = b"\0\0" + struct.pack("!H", len(rects))
        want = [("Begin",)]
        for (x, y, w, h, tiles) in rects:
            ans = next(answers)
            comp = z.compress(bytes(ans[0])) + z.flush(zlib.Z_SYNC_FLUSH)
            wire += struct.pack("!HHHHiI", x, y, w, h, 16, len(comp)) + comp
            want += rfbreal.canon_model([ans[1], [2]])[0]
        want += [("Commit", [tuple(r[:4]) for r in rects]), ("Bell",)]
        data = hs + wire + b"\x02"
        cut = rng.randrange(len(hs), len(data))
        for chunks in ([data], [data[:cut], data[cut:]]):
            cfg = Cfg(variant=1)
            r = run_real(cfg, chunks)
            camp.evaluations += 1
            camp.count("theorem-sample:zrle")
            for rc in rects:
                for t in rc[4]:
                    camp.count("theorem-sample:zrle-" + names[t[0]])
            camp.nontrivial.add(("zthm", len(wire), wire[:24], len(chunks)))
            evs = r["events"]
            b = next((i for i, e in enumerate(evs) if e == ("Begin",)), None)
            got = evs[b:] if b is not None else []
            if r["final"][0] != "idle" or got != want:
                k = next((i for i, (a, c) in enumerate(zip(got, want)) if a != c), min(len(got), len(want)))
                camp.oracle_failures.append({"kind": "oracle", "property": "C02", "case": case_payload(cfg, chunks, {"spec": "zrle_roundtrip"}),
                                             "what": f"a ZRLE update written as C02_zrle_roundtrip says ({[(rc[:4], [names[t[0]] for t in rc[4]]) for rc in rects]}): "
                                                     f"the client ends {r['final'][:2]}; callback #{k}: promised {trim([want[k]]) if k < len(want) else None}, "
                                                     f"made {trim([got[k]]) if k < len(got) else None}"})
                return


def replay(payload):
    if "long_update" in payload.get("case", {}):
        return True, "replay: long single-segment update; re-run ./check C02"
    case = payload["case"]
    cfg = cfg_from_payload(case["cfg"])
    chunks = [bytes.fromhex(c) for c in case["chunks"]]
    r = run_real(cfg, chunks)
    return True, f"replay: final {r['final'][:3]}, last events {trim(r['events'][-4:])} (re-run ./check C02 to judge against a fresh encoder)"
