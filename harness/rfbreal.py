"""Run the real RFB client classes on chunked server streams and record a canonical trace;
run the extracted model on the same input and canonicalise its events the same way."""
from __future__ import annotations

import builtins
import getpass
import io
import os
import zlib

import common  # noqa: F401

from Cryptodome.Cipher import AES, DES
from Cryptodome.Hash import MD5
from twisted.internet.task import Clock
from twisted.internet.testing import StringTransport

import vncdotool.client as vclient
from vncdotool import command, rfb

MODE_ID = {"RGB": 0, "RGBX": 1, "BGR": 2, "BGRX": 3, "BGR;16": 4}


class Cfg:
    def __init__(self, variant=1, shared=None, password=None, username=None, prompt_user="user", prompt_pw="secret",
                 pseudocursor=False, nocursor=False, pseudodesktop=True, last_rect=True, qemu=True,
                 encoding=0, urandom=b"\x00" * 511 + b"\x05", waiter=False):
        self.variant = variant
        self.shared = (variant != 0) if shared is None else shared
        self.password, self.username = password, username
        self.prompt_user, self.prompt_pw = prompt_user, prompt_pw
        self.pseudocursor, self.nocursor, self.pseudodesktop = pseudocursor, nocursor, pseudodesktop
        self.last_rect, self.qemu, self.encoding = last_rect, qemu, encoding
        self.urandom = urandom
        self.waiter = waiter

    def to_sx(self):
        return [self.variant, int(self.shared), [] if self.username is None else [self.username], self.prompt_user,
                self.prompt_pw, self.pseudocursor, self.nocursor, self.pseudodesktop, self.last_rect, self.qemu,
                self.encoding, self.urandom]

    def key(self):
        return repr(self.__dict__)


class RecordingZlib:
    def __init__(self, tape):
        self._d = zlib.decompressobj(0)
        self.tape = tape

    def decompress(self, block):
        try:
            out = self._d.decompress(block)
        except zlib.error:
            self.tape.append(None)
            raise
        self.tape.append(out)
        return out

    def __getattr__(self, name):
        # everything else a decompressobj offers (eof, unused_data, unconsumed_tail, flush, copy) is the real object's
        return getattr(self._d, name)


def _mixin(base):
    class Rec(base):
        def __init__(self):
            super().__init__()
            self.log = []
            self.saves = []
            self._in_fill = False

        # --- count handler invocations made by the expect loop (without touching the loop itself)
        def expect(self, handler, size, *args, **kwargs):
            if getattr(handler, "_counted", None) is None:
                inner = handler

                def counted(block, *a, **k):
                    self._steps = getattr(self, "_steps", 0) + 1
                    if self._steps > self._step_limit:
                        raise RuntimeError("watchdog: handler loop does not end")
                    return inner(block, *a, **k)

                counted._counted = inner
                handler = counted
            super().expect(handler, size, *args, **kwargs)

        _step_limit = 5_000_000

        # --- callbacks
        def vncConnectionMade(self):
            self.log.append(("Made",))
            super().vncConnectionMade()

        def setImageMode(self):
            super().setImageMode()
            self.log.append(("Mode", MODE_ID.get(self.image_mode, -1)))

        def vncAuthFailed(self, reason):
            r = reason if isinstance(reason, (bytes, bytearray)) else str(reason).encode("latin-1")
            self.log.append(("AuthFailed", bytes(r)))
            super().vncAuthFailed(reason)

        def beginUpdate(self):
            self.log.append(("Begin",))
            super().beginUpdate()

        def commitUpdate(self, rectangles=None):
            self.log.append(("Commit", [tuple(r) for r in (rectangles or [])]))
            super().commitUpdate(rectangles)

        def _captureSave(self, data, fp, *args, **kw):
            self.log.append(("Save",))
            self.saves.append(len(self.log) - 1)
            return super()._captureSave(data, fp, *args, **kw)

        def updateRectangle(self, x, y, width, height, data):
            super().updateRectangle(x, y, width, height, data)
            if not self._in_fill:
                self.log.append(("Upd", x, y, width, height, bytes(data)))

        def fillRectangle(self, x, y, width, height, color):
            self._in_fill = True
            try:
                super().fillRectangle(x, y, width, height, color)
            finally:
                self._in_fill = False
            self.log.append(("Fill", x, y, width, height, bytes(color)))

        def copyRectangle(self, srcx, srcy, x, y, width, height):
            self.log.append(("Copy", srcx, srcy, x, y, width, height))
            super().copyRectangle(srcx, srcy, x, y, width, height)

        def updateCursor(self, x, y, width, height, image, mask):
            self.log.append(("Cursor", x, y, width, height, bytes(image), bytes(mask)))
            super().updateCursor(x, y, width, height, image, mask)

        def updateDesktopSize(self, width, height):
            self.log.append(("DesktopSize", width, height))
            super().updateDesktopSize(width, height)

        def bell(self):
            self.log.append(("Bell",))
            super().bell()

        def copy_text(self, text):
            self.log.append(("CutText", text.encode("iso-8859-1")))
            super().copy_text(text)

        def set_color_map(self, first, colors):
            self.log.append(("ColorMap", first, [tuple(c) for c in colors]))
            super().set_color_map(first, colors)

    return Rec


RecBase = _mixin(rfb.RFBClient)
RecLib = _mixin(vclient.VNCDoToolClient)
RecCli = _mixin(command.VNCDoCLIClient)
RecVMware = _mixin(vclient.VMWareClient)


class RecTransport(StringTransport):
    def __init__(self, log):
        super().__init__()
        self._log = log

    def write(self, data):
        self._log.append(("W", bytes(data)))

    def loseConnection(self):
        self._log.append(("Lose",))
        self.disconnecting = True


def make_client(cfg: Cfg, tape: list, cls=None):
    if cls is None:
        cls = {0: RecBase, 1: RecLib, 2: RecCli, 3: RecVMware}[cfg.variant]
    c = cls()
    if cfg.variant == 0:
        f = rfb.RFBFactory(password=cfg.password, shared=cfg.shared)
        f.username = cfg.username
    else:
        f = (command.VNCDoCLIFactory if cfg.variant == 2 else vclient.VNCDoToolFactory)()
        f.password, f.username, f.shared = cfg.password, cfg.username, cfg.shared
        f.pseudocursor, f.nocursor, f.pseudodesktop = cfg.pseudocursor, cfg.nocursor, cfg.pseudodesktop
        f.last_rect, f.qemu_extended_key = cfg.last_rect, cfg.qemu
        c.encoding = cfg.encoding
        log = c.log
        f.clientConnectionMade = lambda proto: log.append(("Connected",))
        f.clientConnectionFailed = lambda conn, reason: log.append(("Errback",))
        f.clientConnectionLost = lambda conn, reason: None
    c.factory = f
    c._zlib_stream = RecordingZlib(tape)
    c.makeConnection(RecTransport(c.log))
    if cfg.waiter and cfg.variant != 0:
        from twisted.internet.defer import Deferred
        c.deferred = Deferred()
        c.deferred.addCallback(c._captureSave, io.BytesIO(), format="png")
        c.deferred.addErrback(lambda f: None)      # a failed save is visible in the log; keep stderr quiet
    return c


class Patches:
    """getpass / input / os.urandom replaced while the client runs"""

    def __init__(self, cfg, log_ref):
        self.cfg, self.log_ref = cfg, log_ref

    def __enter__(self):
        self.saved = (getpass.getpass, builtins.input, os.urandom)
        cfg, ref = self.cfg, self.log_ref

        def fake_getpass(prompt=""):
            ref[0].append(("Prompt",))
            return cfg.prompt_pw

        def fake_input(prompt=""):
            ref[0].append(("Prompt",))
            return cfg.prompt_user

        getpass.getpass = fake_getpass
        builtins.input = fake_input
        os.urandom = lambda n: cfg.urandom[:n] if len(cfg.urandom) >= n else cfg.urandom.rjust(n, b"\0")
        return self

    def __exit__(self, *a):
        getpass.getpass, builtins.input, os.urandom = self.saved


def merge_writes(log):
    out = []
    for e in log:
        if e[0] == "W" and out and out[-1][0] == "W":
            out[-1] = ("W", out[-1][1] + e[1])
        elif e[0] == "W" and e[1] == b"":
            continue
        else:
            out.append(e)
    return out


def run_real(cfg: Cfg, chunks: list[bytes], cls=None):
    """-> dict(events, final, tape, screen)"""
    tape: list = []
    vclient.reactor = Clock()
    ref = [None]
    with Patches(cfg, ref):
        c = make_client(cfg, tape, cls)
        ref[0] = c.log
        crashed = None
        for ch in chunks:
            try:
                c.dataReceived(ch)
            except Exception as e:  # noqa: BLE001  Twisted would log it and drop the connection
                crashed = type(e).__name__ + ": " + str(e)[:80]
                break
    events = merge_writes(c.log)
    if crashed:
        final = ("crashed", crashed)
    elif c._handler == c._handleInitial:
        final = ("initial", len(c._packet))
    else:
        pf = c.pixel_format
        final = ("idle", len(c._packet), c._expected_len,
                 (pf.bpp, pf.depth, int(pf.bigendian), int(pf.truecolor), pf.redmax, pf.greenmax, pf.bluemax,
                  pf.redshift, pf.greenshift, pf.blueshift),
                 MODE_ID.get(getattr(c, "image_mode", "RGBX"), -1), getattr(c, "width", -1), getattr(c, "height", -1),
                 getattr(c, "rectangles", 0), bool(getattr(c, "deferred", None)) if cfg.variant != 0 else False)
    screen = None
    if cfg.variant != 0 and getattr(c, "screen", None) is not None:
        # a giant canvas (a few header bytes can announce 65535x65535) is compared by size only: dumping it would
        # exhaust the guarded child's address space in the harness, not in the client
        sw, sh = c.screen.size
        screen = (c.screen.size, c.screen.tobytes() if sw * sh <= 16_000_000 else b"elided")
    return {"events": events, "final": final, "tape": tape, "screen": screen, "client": c,
            "steps": getattr(c, "_steps", None)}


def model_request(cfg: Cfg, chunks, tape, want_screen=False):
    return ("rfb_run", [cfg.to_sx(), [] if cfg.password is None else [cfg.password],
                        [[] if t is None else [t] for t in tape], cfg.waiter, [bytes(c) for c in chunks],
                        want_screen])


def model_screen(ans):
    if ans == [-3] or len(ans) < 4 or not ans[3]:
        return None
    w, h, flat = ans[3]
    return ((w, h), bytes(flat))


def model_steps(ans):
    return None if ans == [-3] else ans[2]


def canon_model(ans):
    """model answer -> (events, final) in the vocabulary of run_real"""
    if ans == [-3]:
        return None, ("model-out-of-fuel",)
    evs, cl = ans[0], ans[1]
    out = []
    for e in evs:
        t = e[0]
        if t == 0:
            out.append(("W", bytes(e[1])))
        elif t == 1:
            out.append(("W", DES.new(bytes(e[1]), DES.MODE_ECB).encrypt(bytes(e[2]))))
        elif t == 2:
            k = MD5.new(bytes(e[2])).digest()
            out.append(("W", AES.new(k, AES.MODE_ECB).encrypt(bytes(e[1])) + bytes(e[3])))
        elif t == 3:
            out.append(("Lose",))
        elif t == 4:
            out.append(("Prompt",))
        elif t == 5:
            out.append(("Made",))
        elif t == 6:
            out.append(("Connected",))
        elif t == 7:
            out.append(("Errback",))
        elif t == 8:
            out.append(("AuthFailed", bytes(e[1])))
        elif t == 9:
            out.append(("Begin",))
        elif t == 10:
            out.append(("Upd", e[1], e[2], e[3], e[4], bytes(e[5])))
        elif t == 11:
            out.append(("Fill", e[1], e[2], e[3], e[4], bytes(e[5])))
        elif t == 12:
            out.append(("Copy",) + tuple(e[1:7]))
        elif t == 13:
            out.append(("Cursor", e[1], e[2], e[3], e[4], bytes(e[5]), bytes(e[6])))
        elif t == 14:
            out.append(("DesktopSize", e[1], e[2]))
        elif t == 15:
            out.append(("Commit", [tuple(r) for r in e[1]]))
        elif t == 16:
            out.append(("Save",))
        elif t == 17:
            out.append(("Bell",))
        elif t == 18:
            out.append(("CutText", bytes(e[1])))
        elif t == 19:
            out.append(("ColorMap", e[1], [tuple(c) for c in e[2]]))
        elif t == 20:
            out.append(("Mode", e[1]))
    if cl[0] == 0:
        final = ("initial", cl[1])
    elif cl[0] == 2:
        final = ("crashed",)
    else:
        final = ("idle", cl[1], cl[2], tuple(cl[3]), cl[4], cl[5], cl[6], cl[7], bool(cl[8]))
    return merge_writes(out), final


def same_final(real_final, model_final, variant):
    if real_final[0] != model_final[0]:
        return False
    if real_final[0] == "crashed":
        return True
    if real_final[0] == "initial":
        return real_final[1] == model_final[1]
    # idle: buffered bytes, awaited length, pixel format, size, pending rectangle count, waiter;
    # image mode only means something for the library clients
    r, m = list(real_final), list(model_final)
    if variant == 0:
        r[4] = m[4] = None
    return r == m


def run_script_real(cfg: Cfg, items):
    """items: ("chunk", bytes) | ("capture", inc) | ("rcapture", x, y, w, h). -> result dict + captures"""
    tape: list = []
    vclient.reactor = Clock()
    ref = [None]
    captures = []
    with Patches(cfg, ref):
        c = make_client(cfg, tape)
        ref[0] = c.log
        crashed = None
        for it in items:
            try:
                if it[0] == "chunk":
                    c.dataReceived(it[1])
                elif it[0] == "capture":
                    fp = io.BytesIO()
                    d = c.captureScreen(fp, bool(it[1]), format="png")
                    d.addErrback(lambda f: None)    # a failed capture is looked at through the log, not stderr
                    captures.append((fp, None, len(c.log)))
                else:
                    # the public entry point (captureRegion takes a file name; the format follows its extension)
                    import tempfile
                    _, x, y, w, h = it
                    fd, path = tempfile.mkstemp(prefix="verif-rcap-", suffix=".png")
                    os.close(fd)
                    os.unlink(path)
                    d = c.captureRegion(path, x, y, w, h)
                    d.addErrback(lambda f: None)
                    captures.append((path, (x, y, w, h), len(c.log)))
            except Exception as e:  # noqa: BLE001
                crashed = type(e).__name__ + ": " + str(e)[:80]
                break
    events = c.log     # not merged: positions matter here
    out = []
    from PIL import Image
    for fp, region, pos in captures:
        if isinstance(fp, str):
            data = b""
            if os.path.exists(fp):
                with open(fp, "rb") as fh:
                    data = fh.read()
                os.unlink(fp)
        else:
            data = fp.getvalue()
        img = None
        if data:
            im = Image.open(io.BytesIO(data)).convert("RGB")
            img = (im.size, im.tobytes())
        out.append({"region": region, "log_pos": pos, "image": img})
    final = ("crashed", crashed) if crashed else ("idle", len(c._packet))
    return {"events": events, "captures": out, "tape": tape, "final": final, "client": c}
