"""The real vnclog proxy classes wired to in-memory transports and a virtual clock."""
from __future__ import annotations

import io
import struct

import common  # noqa: F401

from twisted.internet.testing import MemoryReactor, StringTransport

from vncdotool import loggingproxy as lp


class FakeTime:
    def __init__(self):
        self.now = 1000.0

    def time(self):
        return self.now

    def strftime(self, fmt):
        return "000000-000000"


class Transport(StringTransport):
    def setTcpNoDelay(self, enabled):
        pass


class SlowTransport(Transport):
    """a socket whose peer reads slowly: written bytes wait in the send buffer until the peer takes them;
    loseConnection() closes after the buffer has drained, abortConnection() throws the buffer away"""

    def __init__(self):
        super().__init__()
        self.pending = b""
        self.delivered = b""
        self.closed = None

    def write(self, data):
        if self.closed is None:
            self.pending += bytes(data)

    def writeSequence(self, seq):
        for d in seq:
            self.write(d)

    def drain(self, n=None):
        n = len(self.pending) if n is None else n
        self.delivered += self.pending[:n]
        self.pending = self.pending[n:]

    def loseConnection(self):
        if self.closed is None:
            self.closed = "closed"
            self.drain()

    def abortConnection(self):
        if self.closed is None:
            self.closed = "aborted"
            self.pending = b""

    def value(self):
        return self.delivered + self.pending


class Proxy:
    """viewer <-> VNCLoggingServerProxy <-> VNCLoggingClientProxy <-> server"""

    def __init__(self, password_required=False, t0_ticks=0, factory=None, clock=None, transport_cls=None):
        self.clock = clock or FakeTime()
        self.base = 1000.0
        self.set_ticks(t0_ticks)
        lp.time = self.clock
        self.writes = []                      # recorder writes
        if factory is None:
            self.factory = lp.VNCLoggingServerFactory("server.example", 5900)
            self.factory.password_required = password_required
            out = self

            class Out:
                def write(self, s):
                    out.writes.append(s)
                    return len(s)

            self.factory.output = Out()
        else:
            self.factory = factory
        self.server_side = self.factory.buildProtocol(None)      # VNCLoggingServerProxy (talks to the viewer)
        self.server_side.reactor = MemoryReactor()
        self.viewer_transport = (transport_cls or Transport)()
        self.server_side.makeConnection(self.viewer_transport)
        host, port, cfactory = self.server_side.reactor.tcpClients[0][:3]
        self.client_side = cfactory.buildProtocol(None)          # VNCLoggingClientProxy (talks to the server)
        self.server_transport = (transport_cls or Transport)()
        self.client_side.makeConnection(self.server_transport)
        self.error = None

    def set_ticks(self, ticks):
        self.clock.now = self.base + ticks / 10000.0

    def from_viewer(self, data: bytes):
        """-> exception or None"""
        try:
            self.server_side.dataReceived(data)
            return None
        except Exception as e:  # noqa: BLE001
            self.error = e
            return e

    def from_server(self, data: bytes):
        try:
            self.client_side.dataReceived(data)
            return None
        except Exception as e:  # noqa: BLE001
            self.error = e
            return e

    def lose(self):
        """the viewer disconnects: connectionLost on the viewer leg (-> factory.clientConnectionLost)"""
        from twisted.internet import error
        from twisted.python.failure import Failure
        try:
            self.server_side.connectionLost(Failure(error.ConnectionDone()))
            return None
        except Exception as e:  # noqa: BLE001
            self.error = e
            return e

    def to_server(self) -> bytes:
        return self.server_transport.value()

    def to_viewer(self) -> bytes:
        return self.viewer_transport.value()

    def script(self) -> str:
        return "".join(self.writes)


# ---- viewer-side message builders (RFC 6143 §7.5), independent of the proxy

def key_event(down, keysym):
    return struct.pack("!BBxxI", 4, int(down) & 0xFF, keysym)       # the down-flag is a byte: non-zero = pressed


def pointer_event(mask, x, y):
    return struct.pack("!BBHH", 5, mask, x, y)


def fbur(inc, x, y, w, h):
    return struct.pack("!BBHHHH", 3, inc, x, y, w, h)


def set_pixel_format(block16):
    return b"\x00\x00\x00\x00" + block16


def set_encodings(encs):
    return struct.pack("!BxH", 2, len(encs)) + b"".join(struct.pack("!i", e) for e in encs)


def cut_text(data):
    return struct.pack("!BxxxI", 6, len(data)) + data


def qemu_key(down, keysym, keycode):
    return struct.pack("!BBHII", 255, 0, down, keysym, keycode)


def viewer_handshake(version=b"003.008", security=b"\x01", auth_response=None, shared=1):
    out = [b"RFB " + version + b"\n"]
    if version in (b"003.007", b"003.008"):
        out.append(security)
    if auth_response is not None:
        out.append(auth_response)
    out.append(bytes([shared]))
    return out
