"""C08 - script commands run strictly one after another with the requested timing."""
import os
import random
import shutil
import struct
import tempfile
from fractions import Fraction

import common
import clientops

from PIL import Image
from twisted.internet.defer import Deferred
from twisted.internet.task import Clock
from twisted.internet.testing import StringTransport

from vncdotool import client as vclient
from vncdotool import command

TRUSTED_BASE = ["Model/Script.v: the callback chain as an interpreter over operations (a callback returning a Deferred suspends the "
                "chain until it fires) - Twisted's Deferred/inlineCallbacks/callLater semantics are modelled, not verified; the real "
                "chain runs under twisted.internet.task.Clock", "Model/Command.v supplies the operations (C10), Model/ClientOps.v the bytes"]
ASSUMPTIONS = ["server commits arrive at times distinct from timer expiries (no ties in the schedule)",
               "timestamps are compared with a 1e-6 s tolerance (the Clock adds binary floats, the model exact rationals)"]
EXTRA_VO = []

W, H = 4, 3
COLOURS = [(200, 10, 10), (10, 200, 10), (10, 10, 200), (120, 120, 0), (0, 0, 0)]


class TimedTransport(StringTransport):
    def __init__(self, clock, log):
        super().__init__()
        self.clock, self.log = clock, log

    def write(self, data):
        self.log.append((self.clock.seconds(), bytes(data)))

    def loseConnection(self):
        self.log.append((self.clock.seconds(), None))


def fbu(colour):
    px = bytes([colour[0], colour[1], colour[2], 0]) * (W * H)
    half = W * 2 * 4
    # two rectangles: only the commit may wake a waiter
    return (b"\0\0\0\x02" + struct.pack("!HHHHi", 0, 0, W, 2, 0) + px[:half]
            + struct.pack("!HHHHi", 0, 2, W, H - 2, 0) + px[half:])


def gen_script(rng, tmp):
    """-> (tokens, structured commands)"""
    cmds = []
    n = rng.randrange(1, 14)
    ncap = 0
    for _ in range(n):
        r = rng.random()
        if r < 0.18:
            k = rng.choice(["a", "Z", "7", "enter", "tab", "f5", "esc", "ctrl-c", "shift-x"])
            cmds.append(("key", k))
        elif r < 0.28:
            cmds.append(("type", "".join(rng.choice("abcXY 12") for _ in range(rng.randrange(1, 5)))))
        elif r < 0.4:
            cmds.append(("move", rng.randrange(0, 30), rng.randrange(0, 30)))
        elif r < 0.48:
            cmds.append((rng.choice(["click", "mdown", "mup"]), rng.randrange(1, 4)))
        elif r < 0.58:
            last_move = next((c for c in reversed(cmds) if c[0] in ("move", "drag")), None)
            if last_move is not None and rng.random() < 0.25:
                cmds.append(("drag", last_move[1], last_move[2]))           # a drag of length zero: one move, nothing else
            else:
                cmds.append(("drag", rng.randrange(0, 12), rng.randrange(0, 12)))
        elif r < 0.76:
            cmds.append((rng.choice(["pause", "sleep"]), rng.choice(["0", "0.1", "0.5", "1", "2.25", "3", ".75", "1e-1"])))
        elif r < 0.88:
            ncap += 1
            cmds.append(("capture", os.path.join(tmp, "cap%d.png" % ncap)))
        else:
            cmds.append(("expect", rng.randrange(len(COLOURS) - 1)))
    groups = []
    for c in cmds:
        if c[0] == "expect":
            groups.append(["expect", os.path.join(tmp, "aw%d.png" % c[1]), "0"])
        else:
            groups.append([c[0]] + [str(a) for a in c[1:]])
    # some or all of the commands come from a script file named on the command line (same commands, same timing)
    mode = rng.choice(["inline", "inline", "file", "partial"])
    gen_script.file_at = None
    if mode != "inline" and len(groups) >= 1:
        import shlex
        a = 0 if mode == "file" else rng.randrange(0, len(groups))
        b = len(groups) if mode == "file" else rng.randrange(a + 1, len(groups) + 1)
        gen_script.counter = getattr(gen_script, "counter", 0) + 1
        path = os.path.join(tmp, "script%d.vdo" % (gen_script.counter % 16))
        with open(path, "w") as f:
            for g in groups[a:b]:
                f.write(" ".join(shlex.quote(t) for t in g) + "\n")
        groups = groups[:a] + [[path]] + groups[b:]
        # naming a file registers one more delay pause (after the splice) than writing its commands inline: the
        # first command of the file starts one delay later - "at least that delay" still holds
        gen_script.file_at = a
    toks = [t for g in groups for t in g]
    return toks, cmds


def run_real(toks, delay, warp, inc, commits, force_caps=False):
    """-> (timed trace [(t, bytes|None)], finished)"""
    clock = Clock()
    vclient.reactor = clock
    command.reactor = clock
    log = []
    f = command.VNCDoCLIFactory()
    f.force_caps = force_caps
    f.deferred = Deferred()
    marker = []

    def mark(client):
        marker.append(len(log))          # everything before belongs to the connection set-up
        return client
    f.deferred.addCallback(mark)
    command.build_command_list(f, list(toks), delay, warp, inc)
    done, failed = [], []

    def close_connection(client):
        client.transport.loseConnection()
    f.deferred.addCallback(close_connection)
    f.deferred.addCallbacks(lambda r: done.append(1), lambda fl: failed.append(fl))
    c = command.VNCDoCLIClient()
    c.factory = f
    c.makeConnection(TimedTransport(clock, log))
    hs = b"RFB 003.008\n\x01\x01\0\0\0\0" + struct.pack("!HH16sI", W, H, bytes([32, 24, 0, 1, 0, 255, 0, 255, 0, 255, 0, 8, 16, 0, 0, 0]), 0)
    c.dataReceived(hs[:12])
    c.dataReceived(hs[12:14])
    c.dataReceived(hs[14:18])
    # the chain fires inside vncConnectionMade -> clientConnectionMade
    c.dataReceived(hs[18:])
    pending = list(commits)
    guard = 0
    while not done and not failed and guard < 100000:
        guard += 1
        calls = clock.getDelayedCalls()
        tn = min((dc.getTime() for dc in calls), default=None)
        tc = pending[0][0] if pending else None
        if tn is None and tc is None:
            break
        if tc is not None and (tn is None or tc < tn):
            clock.advance(max(0.0, tc - clock.seconds()))
            c.dataReceived(fbu(COLOURS[pending[0][1]]))
            pending.pop(0)
        else:
            clock.advance(max(0.0, tn - clock.seconds()))
    return log, (marker[0] if marker else len(log)), bool(done), failed


def merge(tr, tol=1e-6):
    """concatenate writes carrying the same timestamp"""
    out = []
    for t, d in tr:
        if out and d is not None and out[-1][1] is not None and abs(out[-1][0] - t) <= tol:
            out[-1] = (out[-1][0], out[-1][1] + d)
        else:
            out.append((t, d))
    return out


def sop_list(cmds, delay, warp, inc, file_at=None):
    """the operations of the compiled script, as the model's input"""
    def fr(x):
        q = Fraction(x)
        return [q.numerator, q.denominator]
    ops = []
    d = (float(delay) / 1000.0) if delay else None
    n = len(cmds)
    for i, c in enumerate(cmds):
        k = c[0]
        if d and file_at == i:
            ops.append([1] + fr(d))
        if k == "key":
            ops.append([0, [0, 0, c[1]]])
        elif k == "type":
            for ch in c[1]:
                ops.append([0, [0, 0, ch]])
                if d:
                    ops.append([1] + fr(d))
        elif k == "move":
            ops.append([0, [3, c[1], c[2]]])
        elif k == "click":
            ops.append([0, [6, c[1]]])
        elif k == "mdown":
            ops.append([0, [4, c[1]]])
        elif k == "mup":
            ops.append([0, [5, c[1]]])
        elif k == "drag":
            ops.append([2, c[1], c[2]])
        elif k in ("pause", "sleep"):
            ops.append([1] + fr(float(c[1]) / warp))
        elif k == "capture":
            ops.append([3, 1 if inc else 0])
        elif k == "expect":
            ops.append([4, c[1]])
        if d and i < n - 1:
            ops.append([1] + fr(d))
    return ops


def expected_kinds(cmds):
    """oracle: per command, a predicate over the messages it must put on the wire (in order)"""
    return cmds


def judge(cmds, delay, warp, trace, finished, commits, inc=False, file_at=None, force_caps=False):
    """The statement as a reference schedule, independent of the Coq model: every command's messages in order at the
    time the previous command finished (+ delay), pauses of d / warp, drags stepping every 0.2 s, capture / expect
    completing at the right commit, close last and once."""
    msgs = []
    for t, d in trace:
        if d is None:
            msgs.append((t, ("Lose",)))
        else:
            p = clientops.parse_c2s(d)
            if p is None:
                return f"unparseable bytes on the wire: {d[:16].hex()}"
            msgs += [(t, m) for m in p]
    pos = [0]
    dsec = (float(delay) / 1000.0) if delay else 0.0
    state = {"t": 0.0, "px": 0, "py": 0, "mask": 0}
    TOL = 1e-6

    def need(ci, c, want, when):
        k = pos[0]
        if k >= len(msgs):
            return f"command #{ci} {c}: {want} expected at {when:.6f}, but the trace ends"
        t, m = msgs[k]
        if m[:len(want)] != want:
            return f"command #{ci} {c}: {want} expected, the wire carries {m}"
        if abs(t - when) > TOL:
            return (f"command #{ci} {c}: {m} went out at {t:.6f}; the previous command finished (and the requested time elapsed) at "
                    f"{when:.6f}")
        pos[0] += 1
        return None

    def keysyms(k):
        parts = k.split("-") if len(k) > 1 else [k]
        syms = [vclient.KEYMAP.get(p) or ord(p) for p in parts]
        if force_caps and len(k) == 1 and (k.isupper() or k in vclient.VNCDoToolClient.SPECIAL_KEYS_US):
            syms = [0xFFE1] + syms          # --force-caps: shift is held around the character
        return syms

    for ci, c in enumerate(cmds):
        k = c[0]
        if ci > 0 and dsec:
            state["t"] += dsec
        if dsec and file_at == ci:
            state["t"] += dsec
        t = state["t"]
        err = None
        if k == "key":
            ks = keysyms(c[1])
            for s_ in ks:
                err = err or need(ci, c, ("KeyEvent", 1, s_), t)
            for s_ in reversed(ks):
                err = err or need(ci, c, ("KeyEvent", 0, s_), t)
        elif k == "type":
            for n_, ch in enumerate(c[1]):
                for s_ in keysyms(ch):
                    err = err or need(ci, c, ("KeyEvent", 1, s_), state["t"])
                for s_ in reversed(keysyms(ch)):
                    err = err or need(ci, c, ("KeyEvent", 0, s_), state["t"])
                if dsec:
                    state["t"] += dsec
        elif k == "move":
            state["px"], state["py"] = c[1], c[2]
            err = need(ci, c, ("PointerEvent", state["mask"], c[1], c[2]), t)
        elif k in ("click", "mdown", "mup"):
            bit = 1 << (c[1] - 1)
            if k in ("click", "mdown"):
                state["mask"] |= bit
                err = need(ci, c, ("PointerEvent", state["mask"], state["px"], state["py"]), t)
            if k in ("click", "mup"):
                state["mask"] &= ~bit
                err = err or need(ci, c, ("PointerEvent", state["mask"], state["px"], state["py"]), t)
        elif k == "drag":
            ox, oy = state["px"], state["py"]
            dx, dy = c[1] - ox, c[2] - oy
            dmax = max(abs(dx), abs(dy))
            for s_ in range(dmax):
                err = err or need(ci, c, ("PointerEvent", state["mask"], ox + dx * s_ // dmax, oy + dy * s_ // dmax), state["t"])
                state["t"] += 0.2
            err = err or need(ci, c, ("PointerEvent", state["mask"], c[1], c[2]), state["t"])
            state["px"], state["py"] = c[1], c[2]
        elif k in ("pause", "sleep"):
            state["t"] += float(c[1]) / warp
        elif k == "capture":
            err = need(ci, c, ("FbUpdateRequest", 1 if inc else 0, 0, 0, W, H), t)
            nxt = [tc for tc, col in commits if tc > t]
            if not err:
                if not nxt:
                    if finished or pos[0] != len(msgs):
                        return f"command #{ci} {c}: no update ever arrives after {t:.6f}, yet the script went on"
                    return None
                state["t"] = nxt[0]
        elif k == "expect":
            before = [col for tc, col in commits if tc <= t]
            cur = before[-1] if before else None
            if cur != c[1]:
                err = need(ci, c, ("FbUpdateRequest", 0 if cur is None else 1, 0, 0, W, H), t)
                matched = False
                for tc, col in commits:
                    if tc <= t or err:
                        continue
                    if col == c[1]:
                        state["t"] = tc
                        matched = True
                        break
                    err = need(ci, c, ("FbUpdateRequest", 1, 0, 0, W, H), tc)
                if not err and not matched:
                    if finished or pos[0] != len(msgs):
                        return f"command #{ci} {c}: no matching update ever arrives, yet the script went on"
                    return None
        if err:
            return err
    if not finished:
        return f"every command completed by {state['t']:.6f} but the script did not finish"
    err = need(len(cmds), ("close",), ("Lose",), state["t"])
    if err:
        return err
    if pos[0] != len(msgs):
        return f"bytes after the connection was closed: {[m for _t, m in msgs[pos[0]:pos[0] + 3]]}"
    return None


def run(tier, seed, model):
    camp = common.Campaign()
    rng = random.Random(seed * 7919 + 8)
    tmp = tempfile.mkdtemp(prefix="c08-")
    try:
        for k, col in enumerate(COLOURS[:-1]):
            Image.new("RGB", (W, H), col).save(os.path.join(tmp, "aw%d.png" % k))
        n = 250 if tier == "quick" else 8000
        reqs, meta = [], []
        for i in range(n):
            toks, cmds = gen_script(rng, tmp)
            file_at = gen_script.file_at
            camp.count("script-file" if file_at is not None else "inline")
            delay = rng.choice([None, None, 0, 10, 250])
            warp = rng.choice([1.0, 1.0, 0.5, 2.0, 8.0])
            inc = rng.random() < 0.3
            # server schedule: commits at irrational-looking times, colours cycling so that expects eventually match (mostly)
            t = 0.0
            commits = []
            for _ in range(rng.randrange(0, 30)):
                t += rng.choice([0.013, 0.171, 0.333, 0.77, 1.37, 2.9]) + rng.random() * 1e-3
                commits.append((t, rng.randrange(len(COLOURS))))
            fc = rng.random() < 0.25
            camp.count("force-caps" if fc else "no-force-caps")
            trace, start, finished, failed = run_real(toks, delay, warp, inc, commits, fc)
            trace = trace[start:]
            camp.evaluations += 1
            camp.count("delay:%s" % delay)
            camp.count("warp:%s" % warp)
            for c in cmds:
                camp.count("cmd:" + c[0])
            camp.count("finished" if finished else ("failed" if failed else "stuck"))
            camp.nontrivial.add(i)
            why = None
            if failed:
                why = f"the script failed at run time: {failed[0].getErrorMessage()}"
            else:
                why = judge(cmds, delay, warp, trace, finished, commits, inc, file_at, fc)
            if why:
                camp.oracle_failures.append({"kind": "oracle", "property": "C08",
                                             "case": {"tokens": toks, "delay": delay, "warp": warp, "inc": inc, "commits": commits, "force_caps": fc},
                                             "what": f"script {' '.join(os.path.basename(x) for x in toks)!r} (delay={delay}, warp={warp}): {why}"})
                if len(camp.oracle_failures) >= 3:
                    break
                continue
            if model is not None and not fc:      # (the script interpreter of the model has no forced-caps mode: oracle only)
                mc = [[Fraction(tc).numerator, Fraction(tc).denominator, [int(col == k) for k in range(len(COLOURS) - 1)]] for tc, col in commits]
                reqs.append(("script_run", [W, H, sop_list(cmds, delay, warp, inc, file_at), mc]))
                meta.append((i, merge(trace), finished, toks))
            if len(camp.samples) < 4 and i % 61 == 0:
                camp.samples.append({"script": [os.path.basename(x) for x in toks], "delay": delay, "warp": warp,
                                     "writes": len(trace), "finished": finished})
        if model is not None:
            for ans, (i, real, finished, toks) in zip(model.call_many(reqs), meta):
                mtr = merge([(e[0] / 1e9, bytes(e[1]) if len(e) > 1 else None) for e in ans[0]])
                out = ans[1][0]
                why = None
                if (out == 0) != finished:
                    why = f"model outcome {['done', 'stuck', 'failed'][out]}, real script {'finished' if finished else 'did not finish'}"
                elif len(mtr) != len(real):
                    why = f"model trace has {len(mtr)} timed writes, the real one {len(real)}"
                else:
                    for k, ((tm, dm), (tr_, dr)) in enumerate(zip(mtr, real)):
                        if dm != dr or abs(float(tm) - tr_) > 1e-6:
                            why = f"write #{k}: model ({float(tm):.6f}, {dm.hex() if dm else None}) vs real ({tr_:.6f}, {dr.hex() if dr else None})"
                            break
                if why:
                    camp.model_mismatches.append({"property": "C08", "case": {"script": [os.path.basename(x) for x in toks]},
                                                  "what": f"script #{i}: {why}"})
                    if len(camp.model_mismatches) >= 3:
                        break
        if not camp.oracle_failures:
            whole_tool(camp, rng, 60 if tier == "quick" else 1500)
        if not camp.oracle_failures:
            delay_sources(camp, rng)
    finally:
        shutil.rmtree(tmp, ignore_errors=True)
    camp.rule = ("random scripts of 1..13 commands (key incl. chords, type, move, click, mdown, mup, drag, pause/sleep, capture, expect) "
                 "compiled by the real build_command_list with delay in {none,0,10,250} ms and warp in {0.5,1,2,8}, run on a real "
                 "VNCDoCLIClient through the real handshake under task.Clock against a server that commits two-rectangle updates at "
                 "0..29 scheduled times (solicited or not, early or late); judged: per-command message order, no byte before the "
                 "previous command finished, pause >= d/warp, delay between commands, capture/expect completion at the right "
                 "commit, close last and once; timed traces compared with the Coq interpreter; non-trivial = script; then the real "
                 "build_tool (verbosity 0..2, delay, warp) against servers whose desktop name is ASCII / UTF-8 / Latin-1 / empty / "
                 "arbitrary bytes: the script's bytes in order, then the close, at the expected virtual time")
    return camp


NAMES = [b"QEMU (vm1)", b"", "B\u00fcro-PC".encode(), "B\u00fcro-PC".encode("latin-1"), b"\xff\xfe\x00x", b"\x80", "\u4e2d\u6587".encode("utf-16-le"),
         b"a" * 300, b"%s %d {0}"]


def whole_tool(camp, rng, n):
    """vncdo as build_tool assembles it (log_connected, the compiled script, close_connection), on a virtual clock"""
    import contextlib
    import optparse
    import socket
    from c04 import debug_logging
    saved_connect = command.factory_connect
    command.factory_connect = lambda *a, **kw: None           # the protocol is wired to a string transport by hand
    try:
        for i in range(n):
            toks, exp, wait = [], [], Fraction(0)
            delay = rng.choice([0, 0, 20, 250])
            warp = rng.choice([0.5, 1.0, 2.0, 4.0])
            spec = clientops.Spec(W, H, False, False)
            ncmd = rng.randrange(1, 6)
            for j in range(ncmd):
                r = rng.random()
                if r < 0.4:
                    k = rng.choice(["a", "Z", "enter", "ctrl-c", "f1"])
                    toks += ["key", k]
                    exp += spec.expected(("keyPress", k))
                elif r < 0.6:
                    x, y = rng.randrange(0, 50), rng.randrange(0, 50)
                    toks += ["move", str(x), str(y)]
                    exp += spec.expected(("mouseMove", x, y))
                elif r < 0.75:
                    toks += ["click", "1"]
                    exp += spec.expected(("mousePress", 1))
                else:
                    d = rng.choice(["0.5", "1", "0.25", "2"])
                    toks += [rng.choice(["pause", "sleep"]), d]
                    wait += Fraction(d) / Fraction(warp)
                if delay and j < ncmd - 1:
                    wait += Fraction(delay, 1000)
            verbose = rng.choice([0, 0, 1, 2])
            name = rng.choice(NAMES)
            clock = Clock()
            vclient.reactor = clock
            command.reactor = clock
            log = []
            options = optparse.Values(dict(verbose=verbose, delay=delay, warp=warp, incremental_refreshes=False, host="127.0.0.1",
                                           port=5900, address_family=socket.AF_INET))
            why = None
            try:
                with (debug_logging() if verbose == 2 else contextlib.nullcontext()):
                    f = command.build_tool(options, list(toks))
                    failures = []
                    f.deferred.addErrback(failures.append)
                    c = f.buildProtocol(None)
                    tr = TimedTransport(clock, log)
                    c.makeConnection(tr)
                    c.dataReceived(b"RFB 003.008\n\x01\x01\0\0\0\0")
                    start = len(log)
                    c.dataReceived(struct.pack("!HH16sI", W, H, bytes([32, 24, 0, 1, 0, 255, 0, 255, 0, 255, 0, 8, 16, 0, 0, 0]), len(name)) + name)
                    guard = 0
                    while clock.getDelayedCalls() and guard < 10000:
                        guard += 1
                        clock.advance(max(0.0, min(dc.getTime() for dc in clock.getDelayedCalls()) - clock.seconds()))
            except BaseException as e:  # noqa: BLE001
                why = f"raised {type(e).__name__}: {e}"
            camp.evaluations += 1
            camp.count("whole-tool:verbose=%d" % verbose)
            camp.count("whole-tool:name:" + ("ascii" if name.isascii() else "utf-8" if _is_utf8(name) else "not-utf-8"))
            camp.nontrivial.add(("tool", tuple(toks), delay, warp, verbose, name))
            if why is None:
                written = b"".join(d for _, d in log[start:] if d is not None)
                msgs = clientops.parse_c2s(written) or []
                script_msgs = [m for m in msgs if m[0] in ("KeyEvent", "PointerEvent")]
                closes = [t for t, d in log if d is None]
                if failures:
                    why = f"the command chain failed: {failures[0].value!r}"
                elif script_msgs != exp:
                    why = f"{len(exp)} key/pointer messages expected, {len(script_msgs)} written"
                elif len(closes) != 1:
                    why = f"the connection was closed {len(closes)} time(s) after the last command finished"
                elif not f.completed:
                    why = "the connection was closed but the run is not marked completed"
                elif abs(closes[0] - float(wait)) > 1e-6:
                    why = f"the close went out at {closes[0]:.6f}; the pauses and delays of the script end at {float(wait):.6f}"
                elif log[-1][1] is not None:
                    why = "bytes were written after the close"
            if why:
                camp.oracle_failures.append({"kind": "oracle", "property": "C08",
                                             "case": {"whole_tool": toks, "delay": delay, "warp": warp, "verbose": verbose, "name": name.hex()},
                                             "what": f"vncdo {'-' + 'v' * verbose + ' ' if verbose else ''}--delay {delay} --warp {warp} {' '.join(toks)} against a "
                                                     f"server named {name[:24]!r}: {why}"})
                return
    finally:
        command.factory_connect = saved_connect


def delay_sources(camp, rng):
    """which delay is configured: --delay on the command line wins over $VNCDOTOOL_DELAY, which wins over the built-in
    10 ms; --warp is what was written - through the real option parser of vncdo() (cliopts.run_vncdo)"""
    import cliopts
    for _ in range(12):
        cli = rng.choice([None, 0, 25, 400])
        env = rng.choice([None, "0", "7", "250"])
        warp = rng.choice([None, "0.5", "2", "4.0"])
        argv = (["--delay", str(cli)] if cli is not None else []) + (["--warp", warp] if warp else []) + ["key", "a", "key", "b"]
        g = cliopts.run_vncdo(argv, {"VNCDOTOOL_DELAY": env} if env is not None else {})
        want = cli if cli is not None else int(env) if env is not None else 10
        camp.evaluations += 1
        camp.count("delay-sources")
        camp.nontrivial.add(("delay-source", cli, env, warp))
        why = None
        if g["options"] is None:
            why = f"vncdo did not get as far as build_tool (exit {g['exit']}, raised {g['raised']!r})"
        elif g["options"].delay != want:
            why = f"the delay handed to build_tool is {g['options'].delay!r} ms, configured are {want} ms"
        elif float(g["options"].warp) != float(warp or 1.0):
            why = f"the warp factor handed to build_tool is {g['options'].warp!r}"
        if why:
            camp.oracle_failures.append({"kind": "oracle", "property": "C08", "case": {"whole_tool": argv, "env": env},
                                         "what": f"{'VNCDOTOOL_DELAY=' + env + ' ' if env is not None else ''}vncdo {' '.join(argv)}: {why}"})
            return


def _is_utf8(b):
    try:
        b.decode()
        return True
    except UnicodeDecodeError:
        return False


def replay(payload):
    case = payload["case"]
    if "whole_tool" in case:
        return True, "replay: whole-tool case; re-run ./check C08"
    if "tokens" not in case:
        return True, "replay: model-only case; re-run ./check C08"
    tmp = os.path.dirname(next((t for t in case["tokens"] if t.endswith(".png")), "/tmp/x/y"))
    os.makedirs(tmp, exist_ok=True)
    try:
        for k, col in enumerate(COLOURS[:-1]):
            Image.new("RGB", (W, H), col).save(os.path.join(tmp, "aw%d.png" % k))
        trace, start, finished, failed = run_real(case["tokens"], case["delay"], case["warp"], case["inc"], [tuple(c) for c in case["commits"]], case.get("force_caps", False))
        return True, f"replay: finished={finished}, {len(trace) - start} writes, failed={bool(failed)} (re-run ./check C08 to judge)"
    finally:
        shutil.rmtree(tmp, ignore_errors=True)
