"""C17 - vnclog records every input event once, in order, regardless of chunking."""
import random
import shlex

import common
import proxyreal
from proxyreal import Proxy, fbur, key_event, pointer_event, set_encodings, set_pixel_format, viewer_handshake

from vncdotool import loggingproxy as lp

TRUSTED_BASE = ["Model/Recorder.v hand-written transliteration of loggingproxy.RFBServer and the recorder formatting; TYPE_LEN, "
                "REVERSE_MAP, message numbers and struct formats regenerated", "loggingproxy.time is replaced by a virtual clock in "
                "ticks of 1e-4 s ('%.4f' of such differences is exact)"]
ASSUMPTIONS = ["OPEN FINDINGS (KNOWN_FINDINGS.json): a message split across chunks leaves the parser one message late; RFB 3.7/3.8 with "
               "VNC authentication is mis-parsed. The oracle therefore judges sessions chunked at message boundaries with security "
               "None (or 3.3 with --password-required); other chunkings are compared with the model, which mirrors the defects",
               "a button press is a pointer event with the button's bit set following one without it, at an unchanged position"]

REV = {v: n for n, v in lp.KEYMAP.items()}


def gen_session(rng):
    version = rng.choice([b"003.003", b"003.007", b"003.008", b"003.005"])
    pwreq = version in (b"003.003", b"003.005") and rng.random() < 0.4
    hs = viewer_handshake(version, auth_response=(bytes(rng.getrandbits(8) for _ in range(16)) if pwreq else None),
                          shared=rng.choice([0, 1]))
    msgs = []        # (bytes, expected entry or None)
    pos = None
    held = 0
    for _ in range(rng.randrange(1, 25)):
        r = rng.random()
        if r < 0.45:
            k = rng.choice([rng.randrange(32, 127), rng.choice(list(REV)), rng.choice([0xE9, 0x20AC, 0x1F600, 35, 39, 34, 92, 9, 10]),
                            rng.randrange(0x100, 0x3000)])
            down = rng.choice([0, 1])
            name = REV.get(k, chr(k))
            msgs.append((key_event(down, k), ("keydown" if down else "keyup", name)))
        elif r < 0.8:
            if held and rng.random() < 0.7:
                # release at the same position
                msgs.append((pointer_event(0, *pos), ("pointer", None, [])))
                held = 0
            elif pos is not None and rng.random() < 0.4:
                b = rng.randrange(1, 9)
                held = 1 << (b - 1)
                msgs.append((pointer_event(held, *pos), ("pointer", None, [b])))
            else:
                new = (rng.choice([0, 5, 640, 65535, rng.randrange(2000)]), rng.choice([0, 7, 480, 65535, rng.randrange(2000)]))
                moved = new != pos
                pos = new
                msgs.append((pointer_event(0, *pos), ("pointer", pos if moved else None, [])))
        elif r < 0.9:
            msgs.append((fbur(rng.choice([0, 1]), 0, 0, rng.randrange(1, 2000), rng.randrange(1, 2000)), None))
        elif r < 0.95:
            msgs.append((set_encodings([rng.choice([0, 1, 5, 16, -239, -223]) for _ in range(rng.randrange(0, 5))]), None))
        else:
            msgs.append((set_pixel_format(proxyreal.struct.pack("!BB??HHHBBBxxx", 32, 24, False, True, 255, 255, 255, 16, 8, 0)), None))
    return version, pwreq, hs, msgs


def fmt_gap(ticks):
    return "%d.%04d" % (ticks // 10000, ticks % 10000)


def expected_entries(msgs, times, t0):
    """entries as token lists, from the events the viewer sent (the property's right-hand side)"""
    out = []
    last = t0
    for (data, exp), t in zip(msgs, times):
        if exp is None:
            continue
        toks = ["pause", fmt_gap(t - last)]
        last = t
        if exp[0] in ("keydown", "keyup"):
            toks += [exp[0], exp[1]]
        else:
            _, mv, clicks = exp
            if mv is not None:
                toks += ["move", str(mv[0]), str(mv[1])]
            for b in clicks:
                toks += ["click", str(b)]
        out.append(toks)
    return out


def parse_script(text):
    """the script as entries (token lists), one per line"""
    out = []
    for line in text.split(" \n"):
        if line == "":
            continue
        out.append(shlex.split(line, comments=False, posix=True))
    return out


def model_events(ans):
    """-> list per chunk of (status, [recorded lines...])"""
    out = []
    for ch in ans[0]:
        lines = ["".join(map(chr, e[1])) for e in ch[1] if e[0] == 0]
        out.append((ch[0], lines))
    return out


def run_real(pwreq, timed_chunks):
    p = Proxy(password_required=pwreq, t0_ticks=0)
    per_chunk = []
    for t, data in timed_chunks:
        p.set_ticks(t)
        n0 = len(p.writes)
        err = p.from_viewer(data)
        per_chunk.append((1 if err else 0, list(p.writes[n0:])))
        if err:
            break
    return p, per_chunk


def run(tier, seed, model):
    camp = common.Campaign()
    rng = random.Random(seed * 7919 + 17)
    n = 500 if tier == "quick" else 15000
    reqs, meta = [], []
    for i in range(n):
        version, pwreq, hs, msgs = gen_session(rng)
        # --- delivery at message boundaries: judged by the oracle
        t = 0
        chunks = []
        for h in hs:
            t += rng.choice([0, 1, 50, 12345])
            chunks.append((t, h))
        times = []
        for data, _ in msgs:
            t += rng.choice([0, 1, 7, 100, 10000, 123456])
            times.append(t)
            chunks.append((t, data))
        camp.evaluations += 1
        camp.count("version:" + version.decode())
        camp.count("password-required" if pwreq else "security-none")
        p, per_chunk = run_real(pwreq, chunks)
        camp.nontrivial.add((version, pwreq, tuple(d for d, _ in msgs)))
        exp = expected_entries(msgs, times, 0)
        try:
            got = parse_script(p.script())
        except ValueError as e:
            got = f"unparseable script: {e}"
        why = None
        if p.error is not None:
            why = f"the parser raised {type(p.error).__name__}: {p.error}"
        elif got != exp:
            k = next((j for j, (a, b) in enumerate(zip(got, exp)) if a != b), min(len(got), len(exp))) if isinstance(got, list) else 0
            why = (f"script entry #{k}: recorded {got[k] if isinstance(got, list) and k < len(got) else got!r}, "
                   f"the viewer's event was {exp[k] if k < len(exp) else None} ({len(got) if isinstance(got, list) else '?'} entries for {len(exp)} events)")
        else:
            # each entry written by the time its message has arrived
            nh = len(hs)
            for j, ((data, e), (st, lines)) in enumerate(zip(msgs, per_chunk[nh:])):
                if (e is not None) != (len(lines) == 1) or (e is None and lines):
                    why = f"message #{j} ({data[:1].hex()}): {len(lines)} entries written while its bytes arrived"
                    break
        if why:
            camp.oracle_failures.append({"kind": "oracle", "property": "C17",
                                         "case": {"pwreq": pwreq, "chunks": [[tt, d.hex()] for tt, d in chunks]},
                                         "what": f"RFB {version.decode()}, password_required={pwreq}: {why}"})
            if len(camp.oracle_failures) >= 3:
                break
        if model is not None:
            reqs.append(("proxy_run", [pwreq, 0, [[tt, d] for tt, d in chunks]]))
            meta.append((per_chunk, "boundaries", i))
            # --- arbitrary chunking of the same stream: compared with the model only
            stream = b"".join(d for _, d in chunks)
            cuts = sorted(rng.sample(range(1, len(stream)), min(rng.randrange(1, 6), len(stream) - 1)))
            pieces = [stream[a:b] for a, b in zip([0] + cuts, cuts + [len(stream)])]
            tchunks = [(100 * (j + 1), pc) for j, pc in enumerate(pieces)]
            p2, per2 = run_real(pwreq, tchunks)
            reqs.append(("proxy_run", [pwreq, 0, [[tt, d] for tt, d in tchunks]]))
            meta.append((per2, "arbitrary", i))
        if len(camp.samples) < 4 and i % 101 == 0:
            camp.samples.append({"version": version.decode(), "password_required": pwreq, "messages": len(msgs),
                                 "script_head": p.script()[:120]})
    if model is not None:
        for ans, (per_chunk, kind, i) in zip(model.call_many(reqs), meta):
            m = model_events(ans)
            if m != per_chunk:
                k = next((j for j, (a, b) in enumerate(zip(m, per_chunk)) if a != b), min(len(m), len(per_chunk)))
                camp.model_mismatches.append({"property": "C17", "case": {"session": i, "chunking": kind},
                                              "what": f"session {i} ({kind}) chunk #{k}: model {m[k] if k < len(m) else None} vs "
                                                      f"proxy {per_chunk[k] if k < len(per_chunk) else None}"})
    findings(camp)
    camp.rule = ("viewer sessions (RFB 3.3/3.5/3.7/3.8 banners, security None or 3.3+VNC response with --password-required, 1..24 "
                 "messages: key events over ASCII/named/Unicode/special keysyms, pointer moves/presses/releases, update requests, "
                 "SetEncodings, SetPixelFormat) fed to the real VNCLoggingServerProxy under a virtual clock, message by message: "
                 "script entries, order, pauses and the time each entry is written are judged; the same stream under a random "
                 "chunking is compared with the Coq model; non-trivial = distinct session")
    return camp


def findings(camp):
    # (1) a message split across two chunks: every later event is recorded one message late
    hs = viewer_handshake(b"003.008")
    k1, k2, k3 = key_event(1, 97), key_event(0, 97), key_event(1, 98)
    p, _ = run_real(False, [(0, h) for h in hs] + [(10, k1[:3]), (20, k1[3:]), (30, k2), (40, k3)])
    got = parse_script(p.script()) if p.error is None else None
    if got is None or len(got) != 3:
        camp.known_hits.append("a KeyEvent split across two chunks: later events are recorded one message late and the last one "
                               f"never ({0 if got is None else len(got)} of 3 entries) (finding c17-split-message)")
    # (2) RFB 3.8 with VNC authentication: the 16-byte response is parsed as ClientInit + messages
    p2, _ = run_real(False, [(0, b"RFB 003.008\n"), (1, b"\x02"), (2, bytes(range(100, 116))), (3, b"\x01"), (4, key_event(1, 97))])
    got2 = parse_script(p2.script()) if p2.error is None else None
    if got2 != [["pause", "0.0004", "keydown", "a"]]:
        camp.known_hits.append("RFB 3.8 with VNC authentication: the viewer's 16-byte response is parsed as messages "
                               f"({type(p2.error).__name__ if p2.error else got2}) (finding c17-vncauth-37-38)")


def replay(payload):
    case = payload["case"]
    chunks = [(t, bytes.fromhex(d)) for t, d in case["chunks"]]
    p, per = run_real(case["pwreq"], chunks)
    return True, f"replay: error={p.error!r} script={p.script()[:300]!r}"
