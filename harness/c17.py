"""C17 - vnclog records every input event once, in order, regardless of chunking."""
import io
import random
import shlex

import common
import proxyreal
from proxyreal import Proxy, fbur, key_event, pointer_event, set_encodings, set_pixel_format, viewer_handshake

from vncdotool import loggingproxy as lp

EXTRA_VO = ["Proofs/RecorderDispatchTie.vo"]
TRUSTED_BASE = ["Model/Recorder.v hand-written transliteration of loggingproxy.RFBServer and the recorder formatting; TYPE_LEN, "
                "REVERSE_MAP, message numbers and struct formats regenerated", "loggingproxy.time is replaced by a virtual clock in "
                "ticks of 1e-4 s ('%.4f' of such differences is exact)"]
ASSUMPTIONS = ["keysyms are representable: in KEYMAP's reverse map or a code point <= 0x10FFFF other than CR / a surrogate "
               "(the rest is the open C16/C18 finding about chr())",
               "a button press is a pointer event with the button's bit set following one without it, at an unchanged position"]

REV = {v: n for n, v in lp.KEYMAP.items()}


def gen_session(rng):
    version = rng.choice([b"003.003", b"003.007", b"003.008", b"003.005"])
    pwreq = version in (b"003.003", b"003.005") and rng.random() < 0.4
    new = version in (b"003.007", b"003.008")
    vnc = new and rng.random() < 0.5           # a 3.7/3.8 viewer selects VNC authentication
    # --password-required is only consulted for 3.3-style handshakes; for 3.7/3.8 it may be set or not
    if new and rng.random() < 0.3:
        pwreq = True
    resp = bytes(rng.choice([0, 1, 2, 4, 5, 6, 255, rng.getrandbits(8)]) for _ in range(16))
    hs = viewer_handshake(version, security=(b"\x02" if vnc else rng.choice([b"\x01", b"\x01", b"\x10", b"\x1e"])),
                          auth_response=(resp if (vnc or (pwreq and not new)) else None), shared=rng.choice([0, 1]))
    msgs = []        # (bytes, expected entry or None)
    pos = None
    held = 0
    for _ in range(rng.randrange(1, 25)):
        r = rng.random()
        if r < 0.45:
            k = rng.choice([rng.randrange(32, 127), rng.choice(list(REV)), rng.choice([0xE9, 0x20AC, 0x1F600, 35, 39, 34, 92, 9, 10]),
                            rng.randrange(0x100, 0x3000)])
            down = rng.choice([0, 1])
            name = REV.get(k, chr(k))
            msgs.append((key_event(down, k), ("keydown" if down else "keyup", name)))
        elif r < 0.8:
            if held and rng.random() < 0.7:
                # release at the same position
                msgs.append((pointer_event(0, *pos), ("pointer", None, [])))
                held = 0
            elif pos is not None and rng.random() < 0.4:
                b = rng.randrange(1, 9)
                held = 1 << (b - 1)
                msgs.append((pointer_event(held, *pos), ("pointer", None, [b])))
            else:
                new = (rng.choice([0, 5, 640, 65535, rng.randrange(2000)]), rng.choice([0, 7, 480, 65535, rng.randrange(2000)]))
                moved = new != pos
                pos = new
                msgs.append((pointer_event(0, *pos), ("pointer", pos if moved else None, [])))
        elif r < 0.84:
            k = rng.choice([rng.randrange(32, 127), rng.choice(list(REV)), 0x20AC])
            down = rng.choice([0, 1, 1, 256, 65535])
            msgs.append((proxyreal.qemu_key(down, k, rng.getrandbits(32)), ("keydown" if down else "keyup", REV.get(k, chr(k)))))
        elif r < 0.87:
            msgs.append((proxyreal.cut_text(bytes(rng.getrandbits(8) for _ in range(rng.choice([0, 1, 3, 40, 300])))), None))
        elif r < 0.9:
            msgs.append((fbur(rng.choice([0, 1]), 0, 0, rng.randrange(1, 2000), rng.randrange(1, 2000)), None))
        elif r < 0.95:
            msgs.append((set_encodings([rng.choice([0, 1, 5, 16, -239, -223]) for _ in range(rng.randrange(0, 5))]), None))
        else:
            msgs.append((set_pixel_format(proxyreal.struct.pack("!BB??HHHBBBxxx", 32, 24, False, True, 255, 255, 255, 16, 8, 0)), None))
    return version, pwreq, hs, msgs


def fmt_gap(ticks):
    return "%d.%04d" % (ticks // 10000, ticks % 10000)


def expected_entries(msgs, times, t0):
    """entries as token lists, from the events the viewer sent (the property's right-hand side)"""
    out = []
    last = t0
    for (data, exp), t in zip(msgs, times):
        if exp is None:
            continue
        toks = ["pause", fmt_gap(t - last)]
        last = t
        if exp[0] in ("keydown", "keyup"):
            toks += [exp[0], exp[1]]
        else:
            _, mv, clicks = exp
            if mv is not None:
                toks += ["move", str(mv[0]), str(mv[1])]
            for b in clicks:
                toks += ["click", str(b)]
        out.append(toks)
    return out


def parse_script(text):
    """the script as entries (token lists), one per line"""
    out = []
    for line in text.split(" \n"):
        if line == "":
            continue
        out.append(shlex.split(line, comments=False, posix=True))
    return out


def model_events(ans):
    """-> list per chunk of (status, [recorded lines...])"""
    out = []
    for ch in ans[0]:
        lines = ["".join(map(chr, e[1])) for e in ch[1] if e[0] == 0]
        out.append((ch[0], lines))
    return out


def run_real(pwreq, timed_chunks):
    p = Proxy(password_required=pwreq, t0_ticks=0)
    per_chunk = []
    for t, data in timed_chunks:
        p.set_ticks(t)
        n0 = len(p.writes)
        err = p.from_viewer(data)
        per_chunk.append((1 if err else 0, list(p.writes[n0:])))
        if err:
            break
    return p, per_chunk


def judge(version, pwreq, hs, msgs, chunks):
    """Run the real proxy on timed chunks; -> (failure text or None, per_chunk).  The oracle: one entry per
    input event, in order, written during the chunk that delivers the last byte of its message, pause = time
    since the chunk that completed the previous recorded event (or since connection)."""
    p, per_chunk = run_real(pwreq, chunks)
    # arrival chunk of each message's last byte
    ends = []
    pos = sum(len(h) for h in hs)
    for data, _ in msgs:
        pos += len(data)
        ends.append(pos)
    cum = 0
    bounds = []
    for t, d in chunks:
        cum += len(d)
        bounds.append((cum, t))
    times, idx = [], []
    k = 0
    for e in ends:
        while bounds[k][0] < e:
            k += 1
        times.append(bounds[k][1])
        idx.append(k)
    exp = expected_entries(msgs, times, 0)
    try:
        got = parse_script(p.script())
    except ValueError as e:
        got = f"unparseable script: {e}"
    why = None
    if p.error is not None:
        why = f"the parser raised {type(p.error).__name__}: {p.error}"
    elif got != exp:
        k = next((j for j, (a, b) in enumerate(zip(got, exp)) if a != b), min(len(got), len(exp))) if isinstance(got, list) else 0
        why = (f"script entry #{k}: recorded {got[k] if isinstance(got, list) and k < len(got) else got!r}, "
               f"the viewer's event was {exp[k] if k < len(exp) else None} ({len(got) if isinstance(got, list) else '?'} entries for {len(exp)} events)")
    else:
        want = [0] * len(chunks)
        for (data, e), k in zip(msgs, idx):
            if e is not None:
                want[k] += 1
        have = [len(lines) for _st, lines in per_chunk]
        if have != want:
            k = next(j for j, (a, b) in enumerate(zip(have, want)) if a != b)
            why = f"chunk #{k}: {have[k]} entries written while it arrived, {want[k]} messages were completed by it"
    return why, per_chunk


def cut(stream, cuts):
    cuts = sorted(set(c for c in cuts if 0 < c < len(stream)))
    return [stream[a:b] for a, b in zip([0] + cuts, cuts + [len(stream)])]


def run(tier, seed, model):
    camp = common.Campaign()
    rng = random.Random(seed * 7919 + 17)
    n = 400 if tier == "quick" else 12000
    reqs, meta = [], []
    for i in range(n):
        version, pwreq, hs, msgs = gen_session(rng)
        stream = b"".join(hs) + b"".join(d for d, _ in msgs)
        deliveries = []
        # (a) message by message
        t = 0
        chunks = []
        for h in hs:
            t += rng.choice([0, 1, 50, 12345])
            chunks.append((t, h))
        for data, _ in msgs:
            t += rng.choice([0, 1, 7, 100, 10000, 123456])
            chunks.append((t, data))
        deliveries.append(("boundaries", chunks))
        # (b) random cuts, (c) byte at a time, (d) whole, (e) a cut inside every message in turn
        k = min(rng.randrange(1, 8), len(stream) - 1)
        pieces = cut(stream, rng.sample(range(1, len(stream)), k))
        tt, timed = 0, []
        for pc in pieces:
            tt += rng.choice([0, 1, 37, 5000, 99999])
            timed.append((tt, pc))
        deliveries.append(("random", timed))
        if i % 4 == 0:
            deliveries.append(("bytewise", [(3 * (j + 1), stream[j:j + 1]) for j in range(len(stream))]))
        if i % 4 == 1:
            deliveries.append(("whole", [(11, stream)]))
        if i % 4 >= 2:
            pos = sum(len(h) for h in hs)
            cs = []
            for data, _ in msgs:
                if len(data) > 1:
                    cs.append(pos + rng.randrange(1, len(data)))
                pos += len(data)
            deliveries.append(("split-every-message", [(101 * (j + 1), pc) for j, pc in enumerate(cut(stream, cs))]))
        camp.count("version:" + version.decode())
        camp.count("security:" + ("vnc-response" if any(len(h) == 16 for h in hs) else "none"))
        camp.nontrivial.add((version, pwreq, tuple(d for d, _ in msgs)))
        # other viewer connections of the same vnclog process must not leak into this one: one that hung up in the middle
        # of a message before, and one that is still waiting for the rest of a split message
        if i % 3 == 0:
            dead = Proxy(password_required=False, t0_ticks=0)
            for h in viewer_handshake(b"003.008"):
                dead.from_viewer(h)
            dead.from_viewer(pointer_event(0, 7, 9)[:4])
            dead.lose()
            other = Proxy(password_required=False, t0_ticks=0)
            for h in viewer_handshake(b"003.008"):
                other.from_viewer(h)
            other.from_viewer(key_event(1, 0x61)[:5])
            camp.count("with-other-connections")
        else:
            other = None
        for kind, chunks in deliveries:
            camp.evaluations += 1
            camp.count("delivery:" + kind)
            why, per_chunk = judge(version, pwreq, hs, msgs, chunks)
            if why:
                camp.oracle_failures.append({"kind": "oracle", "property": "C17",
                                             "case": {"pwreq": pwreq, "chunks": [[tt, d.hex()] for tt, d in chunks]},
                                             "what": f"RFB {version.decode()}, password_required={pwreq}, delivery {kind} "
                                                     f"({len(chunks)} chunks): {why}"})
            if model is not None:
                reqs.append(("proxy_run", [pwreq, 0, [[tt, d] for tt, d in chunks]]))
                meta.append((per_chunk, kind, i))
        if other is not None and not camp.oracle_failures:
            err = other.from_viewer(key_event(1, 0x61)[5:])
            got = None if err is not None else parse_script(other.script())
            if err is not None or [g[2:] for g in got] != [["keydown", "a"]]:
                camp.oracle_failures.append({"kind": "oracle", "property": "C17", "case": {"pwreq": False, "chunks": []},
                                             "what": f"a second viewer connection whose KeyEvent was split around another connection's session recorded "
                                                     f"{got if err is None else repr(err)} instead of its own single keydown a"})
        if len(camp.oracle_failures) >= 3:
            break
        if len(camp.samples) < 4 and i % 101 == 0:
            camp.samples.append({"version": version.decode(), "password_required": pwreq, "messages": len(msgs),
                                 "stream_bytes": len(stream)})
    if not camp.oracle_failures:
        reconnects(camp, rng, 30 if tier == "quick" else 600)
    if model is not None:
        for ans, (per_chunk, kind, i) in zip(model.call_many(reqs), meta):
            m = model_events(ans)
            if m != per_chunk:
                k = next((j for j, (a, b) in enumerate(zip(m, per_chunk)) if a != b), min(len(m), len(per_chunk)))
                camp.model_mismatches.append({"property": "C17", "case": {"session": i, "chunking": kind},
                                              "what": f"session {i} ({kind}) chunk #{k}: model {m[k] if k < len(m) else None} vs "
                                                      f"proxy {per_chunk[k] if k < len(per_chunk) else None}"})
    camp.rule = ("viewer sessions (RFB 3.3/3.5/3.7/3.8 banners; security None, VNC authentication selected by a 3.7/3.8 viewer, or "
                 "3.3 + VNC response with --password-required; 1..24 messages: key events over ASCII/named/Unicode/special keysyms, "
                 "QEMU extended key events, pointer moves/presses/releases, update requests, SetEncodings, SetPixelFormat, "
                 "ClientCutText) fed to the real VNCLoggingServerProxy under a virtual clock, delivered message by message, under "
                 "random cuts, byte at a time, whole, and with a cut inside every message: script entries, order, pauses and the "
                 "chunk during which each entry is written are judged, and every run is compared with the Coq model; "
                 "non-trivial = distinct session")
    return camp


def reconnects(camp, rng, n):
    """vnclog FILE serving several viewers, one after the other or overlapping: every session's entries reach the file"""
    import os
    import tempfile
    from vncdotool import loggingproxy as lp
    tmp = tempfile.mkdtemp(prefix="c17-")
    try:
        for i in range(n):
            path = os.path.join(tmp, "log%d.vdo" % (i % 4))
            factory = lp.VNCLoggingServerFactory("server.example", 5900)
            dirmode = i % 3 == 2              # vnclog --forever DIR: one file per viewer, named by the second it connected
            if dirmode:
                path = os.path.join(tmp, "dir%d" % i)
                os.makedirs(path)
                factory.output = path
                out = io.StringIO()
            else:
                out = open(path, "w")
                factory.output = out
            overlapping = rng.random() < 0.5 and not dirmode
            want, why = [], None
            sessions = []
            try:
                ticker = [0]

                def _stamp(fmt, _t=ticker):
                    _t[0] += 1
                    return "s%04d" % _t[0]

                def mk():
                    p_ = Proxy.__new__(Proxy)
                    clock = proxyreal.FakeTime()
                    clock.strftime = _stamp
                    Proxy.__init__(p_, factory=factory, clock=clock)
                    return p_
                first = mk()
                second = mk() if overlapping else None
                for h in viewer_handshake(b"003.008"):
                    first.from_viewer(h)
                    if second is not None:
                        second.from_viewer(h)
                for k in range(rng.randrange(1, 4)):
                    ch = rng.choice("abcxyz")
                    why = why or first.from_viewer(key_event(1, ord(ch)))
                    want.append(["keydown", ch])
                why = why or first.lose()
                for r in range(rng.randrange(1, 3)):          # viewers that come (back) after the first one left
                    if second is None:
                        second = mk()
                        for h in viewer_handshake(b"003.008"):
                            second.from_viewer(h)
                    for k in range(rng.randrange(1, 4)):
                        ch = rng.choice("abcxyz")
                        why = why or second.from_viewer(key_event(0, ord(ch)))
                        want.append(["keyup", ch])
                    why = why or second.lose()
                    second = None
            finally:
                try:
                    out.close()
                except Exception:  # noqa: BLE001
                    pass
            camp.evaluations += 1
            camp.count("one-output-file:" + ("overlapping-viewers" if overlapping else "reconnecting-viewer"))
            camp.nontrivial.add(("reconnect", i, overlapping, len(want)))
            if dirmode:
                text = "".join(open(os.path.join(path, f)).read() for f in sorted(os.listdir(path)))
            else:
                text = open(path).read()
            got = [g[2:] for g in parse_script(text)]
            if why is not None or got != want:
                camp.oracle_failures.append({"kind": "oracle", "property": "C17", "case": {"pwreq": False, "chunks": [], "reconnect": True},
                                             "what": f"vnclog {'--forever DIR' if dirmode else 'FILE'} with {'two overlapping viewers' if overlapping else 'a viewer that reconnects'}: "
                                                     + (f"the proxy raised {why!r}" if why is not None else
                                                        f"{len(want)} key events were sent over all sessions, the file holds {len(got)} entries ({got[:6]})")})
                return
    finally:
        import shutil
        shutil.rmtree(tmp, ignore_errors=True)


def replay(payload):
    case = payload["case"]
    chunks = [(t, bytes.fromhex(d)) for t, d in case["chunks"]]
    p, per = run_real(case["pwreq"], chunks)
    return True, f"replay: error={p.error!r} script={p.script()[:300]!r}"
