"""C09 - vncdo's exit status tells the truth and --timeout bounds the run (real processes)."""
import os
import random
import shutil
import struct
import subprocess
import sys
import tempfile
import time
from concurrent.futures import ThreadPoolExecutor

import common
from scripted_server import ScriptedServer, server_init

TRUSTED_BASE = ["Model/Exit.v: the exit-status machine of VNCDoCLIFactory / build_tool / the timeout timer, hand-written; which "
                "reactor events a given server behaviour produces is Twisted's and the kernel's business and is observed, not proved",
                "real vncdo processes against scripted loopback servers (harness/scripted_server.py)"]
ASSUMPTIONS = ["the wall-clock bound is T + 1 s + twice the cost of a vncdo process that fails at once, measured in the same run (about 0.5 s when idle)",
               "PARTIAL by nature: the theorems cover the status machine for every event sequence; the mapping from server behaviour to "
               "events and the wall clock are sampled by the campaign"]

PY = "/venv/bin/python"
LAUNCH = ("import sys; sys.path.insert(0, %r); from vncdotool.command import vncdo; sys.argv = ['vncdo'] + sys.argv[1:]; vncdo()"
          % common.REPO)
EV = {"connfailed": 0, "completed": 1, "lostclean": 2, "losterror": 3, "timeout": 4, "stop": 5}


def fbu_raw(w=8, h=8):
    return b"\0\0\0\x01" + struct.pack("!HHHHi", 0, 0, w, h, 0) + bytes(w * h * 4)


def handshake(version, auth=None):
    """server actions up to and including ServerInit. auth: None | 'vnc-ok' | 'vnc-fail'"""
    acts = [("send", b"RFB " + version + b"\n"), ("recv", 12)]
    if version == b"003.003":
        if auth is None:
            acts += [("send", struct.pack("!I", 1))]
        else:
            acts += [("send", struct.pack("!I", 2)), ("send", bytes(range(16))), ("recv", 16),
                     ("send", struct.pack("!I", 0 if auth == "vnc-ok" else 1))]
    else:
        if auth is None:
            acts += [("send", b"\x01\x01"), ("recv", 1)]
            if version == b"003.008":
                acts += [("send", b"\0\0\0\0")]
        else:
            acts += [("send", b"\x01\x02"), ("recv", 1), ("send", bytes(range(16))), ("recv", 16),
                     ("send", struct.pack("!I", 0 if auth == "vnc-ok" else 1))]
            if auth == "vnc-fail" and version == b"003.008":
                acts += [("send", struct.pack("!I", 5) + b"nope!")]
    if auth != "vnc-fail":
        acts += [("recv", 1), ("send", server_init())]
    return acts


def run_vncdo(port, args, timeout=None, password=None, limit=25):
    cmd = [PY, "-c", LAUNCH, "-s", "127.0.0.1::%d" % port]
    if timeout is not None:
        cmd += ["--timeout", str(timeout)]
    if password is not None:
        cmd += ["--password", password]
    cmd += args
    t0 = time.time()
    p = subprocess.Popen(cmd, stdout=subprocess.PIPE, stderr=subprocess.STDOUT, stdin=subprocess.DEVNULL)
    try:
        out, _ = p.communicate(timeout=limit)
        rc = p.returncode
    except subprocess.TimeoutExpired:
        p.kill()
        out, _ = p.communicate()
        rc = None
    return rc, time.time() - t0, out.decode(errors="replace")[-300:]


def free_port():
    import socket
    s = socket.socket()
    s.bind(("127.0.0.1", 0))
    p = s.getsockname()[1]
    s.close()
    return p


def scenarios(rng, tmp, tier, pre=0.5):
    """-> list of dicts: name, actions (None = nobody listens), args, timeout, password, want ('zero'|'nonzero'), events"""
    S = []
    cap = os.path.join(tmp, "cap.png")
    scripts = {
        "key": (["key", "a"], False),
        "keys+pause": (["key", "a", "pause", "0.3", "type", "bc"], False),
        "pointer": (["move", "3", "4", "click", "1", "drag", "6", "4"], False),
        "capture": (["capture", cap], True),
        "key+capture": (["key", "x", "capture", cap, "key", "y"], True),
    }
    versions = [b"003.003", b"003.007", b"003.008"]
    for _k in range(3):
        S.append(dict(name="nobody listens (%d)" % _k, actions=None, args=["key", "a"], want="nonzero", events=["connfailed", "stop"]))
    for v in versions:
        vs = v.decode()
        # ---- the connection ends during the handshake
        for fault in ("close", "rst"):
            for cutat in (0, 1, 3):
                acts = handshake(v)[:cutat] + [(fault,)]
                S.append(dict(name=f"{vs}: {fault} after {cutat} handshake steps", actions=acts, args=["key", "a"], want="nonzero",
                              events=["lostclean" if fault == "close" else "losterror", "stop"]))
        refusal = ([("send", b"RFB " + v + b"\n"), ("recv", 12)]
                   + ([("send", struct.pack("!II", 0, 4) + b"busy")] if v == b"003.003" else [("send", b"\0" + struct.pack("!I", 4) + b"busy")]))
        S.append(dict(name=f"{vs}: connection refused by the server (RFB reason)", actions=refusal + [("silent",)], args=["key", "a"],
                      want="nonzero", events=["lostclean", "stop"]))
        S.append(dict(name=f"{vs}: empty refusal reason", actions=refusal[:2] + [("send", (struct.pack("!II", 0, 0) if v == b"003.003" else b"\0" + struct.pack("!I", 0)))] + [("silent",)],
                      args=["key", "a"], want="nonzero", events=["lostclean", "stop"], timeout=6))
        S.append(dict(name=f"{vs}: authentication fails (wrong password)", actions=handshake(v, "vnc-fail") + [("silent",)],
                      args=["key", "a"], password="wrong", want="nonzero", events=["lostclean", "stop"]))
        if v != b"003.003":
            S.append(dict(name=f"{vs}: only an unsupported security type offered",
                          actions=[("send", b"RFB " + v + b"\n"), ("recv", 12), ("send", b"\x01\x63"), ("silent",)],
                          args=["key", "a"], want="nonzero", events=["lostclean", "stop"]))
        # ---- established; the script runs
        for sname, (args, needs_update) in scripts.items():
            good = handshake(v) + ([("recv_until_fbur",), ("send", fbu_raw())] if needs_update else [])
            S.append(dict(name=f"{vs}: '{sname}' against a well-behaved server", actions=good, args=args, want="zero",
                          events=["completed", "lostclean", "stop"], complete=True))
            S.append(dict(name=f"{vs}: '{sname}' with VNC authentication", actions=handshake(v, "vnc-ok") + good[len(handshake(v)):],
                          args=args, password="secret", want="zero", events=["completed", "lostclean", "stop"], complete=True))
            if needs_update:
                for fault, ev in (("close", "lostclean"), ("rst", "losterror")):
                    S.append(dict(name=f"{vs}: '{sname}': {fault} instead of the update", actions=handshake(v) + [("recv_until_fbur",), (fault,)],
                                  args=args, want="nonzero", events=[ev, "stop"]))
                S.append(dict(name=f"{vs}: '{sname}': unknown message type instead of the update",
                              actions=handshake(v) + [("recv_until_fbur",), ("send", b"\x63"), ("silent",)], args=args, want="nonzero",
                              events=["lostclean", "stop"]))
                S.append(dict(name=f"{vs}: '{sname}': update with an unknown encoding",
                              actions=handshake(v) + [("recv_until_fbur",), ("send", b"\0\0\0\x01" + struct.pack("!HHHHi", 0, 0, 1, 1, 77)), ("silent",)],
                              args=args, want="nonzero", events=["lostclean", "stop"]))
                S.append(dict(name=f"{vs}: '{sname}': server goes silent, --timeout 2", actions=handshake(v) + [("recv_until_fbur",), ("silent",)],
                              args=args, timeout=2, want="nonzero", events=["timeout", "stop"]))
            else:
                for fault, ev in (("close", "lostclean"), ("rst", "losterror")):
                    S.append(dict(name=f"{vs}: '{sname}': {fault} right after ServerInit", actions=handshake(v) + [(fault,)], args=["pause", "0.5"] + args,
                                  want="nonzero", events=[ev, "stop"]))
                S.append(dict(name=f"{vs}: '{sname}': unknown message right after ServerInit",
                              actions=handshake(v) + [("send", b"\x63"), ("silent",)], args=["pause", "0.5"] + args, want="nonzero",
                              events=["lostclean", "stop"]))
        # the script has only a few milliseconds of work left when the connection ends
        quick = ["key", "a", "key", "b", "key", "c"]
        S.append(dict(name=f"{vs}: 'key a key b key c': clean close right after ServerInit", actions=handshake(v) + [("close",)], args=quick,
                      want="nonzero", events=["lostclean", "stop"]))
        S.append(dict(name=f"{vs}: 'key a key b key c': unknown message right after ServerInit",
                      actions=handshake(v) + [("send", b"\x63"), ("silent",)], args=quick, want="nonzero", events=["lostclean", "stop"]))
        # a command that raises at run time (a key name nobody knows, an image that does not exist, an unwritable capture
        # file): the script was not carried out, whatever the (healthy) server does
        S.append(dict(name=f"{vs}: 'key ctrl-alt-backspace key a' (unknown key name), --timeout 2", actions=handshake(v) + [("silent",)],
                      args=["key", "ctrl-alt-backspace", "key", "a"], timeout=2, want="nonzero", events=["timeout", "stop"]))
        S.append(dict(name=f"{vs}: 'expect missing.png 0 key a' (no such image), --timeout 2", actions=handshake(v) + [("silent",)],
                      args=["expect", os.path.join(tmp, "missing.png"), "0", "key", "a"], timeout=2, want="nonzero",
                      events=["timeout", "stop"]))
        # the script ends with a pause and the server hangs up (cleanly) while it is still running: not completed
        S.append(dict(name=f"{vs}: 'key a pause 3': clean close 1 s into the final pause", actions=handshake(v) + [("sleep", 1.0), ("close",)],
                      args=["key", "a", "pause", "3"], want="nonzero", events=["lostclean", "stop"]))
        S.append(dict(name=f"{vs}: 'sleep 4': clean close 0.5 s into the only command", actions=handshake(v) + [("sleep", 0.5), ("close",)],
                      args=["sleep", "4"], want="nonzero", events=["lostclean", "stop"]))
        # slow (not silent) handshake, then an update that never comes: the timeout counts from the start
        # (the delay scales with what a vncdo process costs right now, so that the bound T + 1 + 2*startup below still
        # separates "counted from the start" from "counted from the connection" on a loaded machine)
        slow = round(min(12.0, 2.0 + 4.0 * pre), 1)
        S.append(dict(name=f"{vs}: slow handshake ({slow} s before ServerInit), then silence, --timeout {slow + 0.5}",
                      actions=handshake(v)[:-1] + [("sleep", slow), handshake(v)[-1], ("silent",)], args=["capture", cap], timeout=slow + 0.5,
                      want="nonzero", events=["timeout", "stop"]))
        S.append(dict(name=f"{vs}: silent before the banner, --timeout 2", actions=[("silent",)], args=["key", "a"], timeout=2,
                      want="nonzero", events=["timeout", "stop"]))
        S.append(dict(name=f"{vs}: silent after the banner, --timeout 2", actions=handshake(v)[:2] + [("silent",)], args=["key", "a"], timeout=2,
                      want="nonzero", events=["timeout", "stop"]))
        S.append(dict(name=f"{vs}: a long pause, --timeout 1.5", actions=handshake(v), args=["key", "a", "pause", "30", "key", "b"], timeout=1.5,
                      want="nonzero", events=["timeout", "stop"]))
        S.append(dict(name=f"{vs}: script done well inside --timeout 20", actions=handshake(v), args=["key", "a"], timeout=20,
                      want="zero", events=["completed", "lostclean", "stop"], complete=True))
    # ---- the client aborts on data it cannot decode while a capture waits for exactly that update
    import struct as _st
    badz = b"\0\0\0\x01" + _st.pack("!HHHHi", 0, 0, 4, 4, 16) + _st.pack("!I", 12) + b"not zlib data"[:12]
    shortz = b"\0\0\0\x01" + _st.pack("!HHHHi", 0, 0, 64, 64, 16) + _st.pack("!I", 11) + __import__("zlib").compress(b"\x00\x01\x02")
    for nm, payload in (("a ZRLE rectangle whose zlib data is garbage", badz), ("a ZRLE rectangle whose tile data ends early", shortz)):
        S.append(dict(name=f"003.008: 'capture': the update carries {nm}", actions=handshake(b"003.008") + [("recv_until_fbur",), ("send", payload), ("silent",)],
                      args=["capture", os.path.join(tmp, "undecodable.png")], timeout=8, want="nonzero", events=["losterror", "stop"], special=True))
    # ---- --timeout counts wall-clock seconds whatever --warp says (warp scales the script's pauses only)
    v = b"003.008"
    S.append(dict(name="--warp 4: 'key a pause 8 key b' (2 s of wall clock) inside --timeout 6", actions=handshake(v),
                  args=["--warp", "4", "key", "a", "pause", "8", "key", "b"], timeout=6, want="zero",
                  events=["completed", "lostclean", "stop"], complete=True))
    S.append(dict(name="--warp 0.25: server goes silent, --timeout 2", actions=handshake(v) + [("silent",)],
                  args=["--warp", "0.25", "capture", os.path.join(tmp, "warp.png")], timeout=2, want="nonzero", events=["timeout", "stop"]))
    # ---- more output than the socket buffers hold: the close itself depends on the server reading
    big = os.path.join(tmp, "big.txt")
    with open(big, "w") as f:
        f.write("x" * (12 << 20))
    S.append(dict(name="12 MiB pastefile, server reads everything", actions=handshake(b"003.008"), args=["pastefile", big], want="zero",
                  events=["completed", "lostclean", "stop"], complete=True, big=True))
    S.append(dict(name="12 MiB pastefile, server stops reading, --timeout 3", actions=handshake(b"003.008") + [("sleep", 30)], args=["pastefile", big],
                  timeout=3, want="nonzero", events=["completed", "timeout", "stop"], big=True))
    S.append(dict(name="12 MiB pastefile, server resets after 64 KiB", actions=handshake(b"003.008") + [("recv", 65536), ("rst",)], args=["pastefile", big],
                  want="nonzero", events=["completed", "losterror", "stop"], big=True))
    if tier == "quick":
        # a third of the grid per run, always with the special cases
        keep = [s for i, s in enumerate(S) if s.get("big") or s["actions"] is None or "slow handshake" in s["name"] or "--warp" in s["name"] or s.get("special")
                or "key a key b key c" in s["name"] or "final pause" in s["name"] or "unknown key name" in s["name"] or (i + rng.randrange(3)) % 3 == 0]
        return keep
    return S


class Server(ScriptedServer):
    """adds: recv_until_fbur - read until a FramebufferUpdateRequest (type 3, 10 bytes) has been seen at the end"""

    def _run(self):
        # translate the extra action into plain ones at run time
        import socket as _s
        try:
            c, _a = self.sock.accept()
            buf = []
            self.received.append(buf)
            self.eof = False
            try:
                for act in self.script:
                    k = act[0]
                    if k == "send":
                        c.sendall(act[1])
                    elif k == "recv":
                        self._recv_exact(c, act[1], buf)
                    elif k == "recv_until_fbur":
                        data = b""
                        while not (len(data) >= 10 and data[-10:-9] == b"\x03" and data[-8:-4] == b"\0\0\0\0"):
                            d = c.recv(65536)
                            if not d:
                                raise EOFError
                            data += d
                        buf.append(data)
                    elif k == "sleep":
                        time.sleep(act[1])
                    elif k == "close":
                        c.shutdown(_s.SHUT_RDWR)
                        break
                    elif k == "rst":
                        c.setsockopt(_s.SOL_SOCKET, _s.SO_LINGER, struct.pack("ii", 1, 0))
                        break
                    elif k == "silent":
                        c.settimeout(40)
                        while True:
                            d = c.recv(65536)
                            if not d:
                                self.eof = True
                                break
                            buf.append(d)
                        break
                else:
                    c.settimeout(40)
                    while True:
                        d = c.recv(1 << 20)
                        if not d:
                            self.eof = True
                            break
                        buf.append(d)
            except (EOFError, OSError) as e:
                self.error = e
            finally:
                try:
                    c.close()
                except OSError:
                    pass
        finally:
            self.sock.close()


def run_one(sc):
    if sc["actions"] is None:
        port = free_port()
        srv = None
    else:
        srv = Server(sc["actions"])
        port = srv.port
    rc, wall, out = run_vncdo(port, sc["args"], sc.get("timeout"), sc.get("password"))
    got = 0
    eof = False
    if srv is not None:
        srv.thread.join(timeout=5)
        got = sum(len(b) for conn in srv.received for b in conn)
        eof = getattr(srv, "eof", False)
    return rc, wall, out, got, eof


def run(tier, seed, model):
    camp = common.Campaign()
    rng = random.Random(seed * 7919 + 9)
    tmp = tempfile.mkdtemp(prefix="c09-")
    try:
        # what a vncdo process costs right now, measured before the scenarios are laid out
        pre = max([run_one(dict(actions=None, args=["key", "a"]))[1] for _ in range(2)] + [0.3])
        camp.extra["startup_pre_s"] = round(pre, 2)
        S = scenarios(rng, tmp, tier, pre)
        with ThreadPoolExecutor(max_workers=12) as ex:
            results = list(ex.map(run_one, S))
        ref_bytes = {}
        for sc, (rc, wall, out, got, eof) in zip(S, results):
            if sc.get("complete") and rc == 0:
                ref_bytes[(tuple(sc["args"]), sc.get("password") is not None)] = got
        # what a vncdo process costs on this machine right now (interpreter start, imports, reactor stop): the runs against
        # a port nobody listens on do nothing else; the wall-clock bound scales with it so that load cannot raise a false alarm
        startup = max([w for sc, (rc, w, *_rest) in zip(S, results) if sc["actions"] is None and rc is not None] + [0.5])
        camp.extra["startup_s"] = round(startup, 2)
        reqs = []
        for sc, (rc, wall, out, got, eof) in zip(S, results):
            camp.evaluations += 1
            camp.count("want:" + sc["want"])
            camp.count("exit:%s" % rc)
            camp.nontrivial.add(sc["name"])
            why = None
            T = sc.get("timeout")
            if rc is None:
                why = f"the process did not terminate within 25 s{' although --timeout %s was given' % T if T else ''}"
            elif sc["want"] == "nonzero" and rc == 0:
                why = "exit status 0 although the script was not completed / the connection did not end by vncdo closing it"
            elif sc["want"] == "zero" and rc != 0:
                why = f"exit status {rc} although every command was carried out and vncdo closed the connection ({out.strip()[-120:]})"
            elif rc == 0 and not eof and sc["actions"] is not None:
                why = "exit status 0 but the server never saw vncdo close the connection"
            elif T is not None and wall > T + 1.0 + 2.0 * startup:
                why = f"--timeout {T}: the process needed {wall:.1f} s"
            if why:
                camp.oracle_failures.append({"kind": "oracle", "property": "C09", "case": {"scenario": sc["name"]},
                                             "what": f"{sc['name']}: {why} (exit {rc}, {wall:.1f} s, server received {got} bytes)"})
            reqs.append(("exit_status", [EV[e] for e in sc["events"]]))
        if model is not None:
            for sc, (rc, wall, out, got, eof), ms in zip(S, results, model.call_many(reqs)):
                if rc is not None and (ms == 0) != (rc == 0):
                    camp.model_mismatches.append({"property": "C09", "case": {"scenario": sc["name"]},
                                                  "what": f"{sc['name']}: the status machine gives {ms} for {sc['events']}, the process exited {rc}"})
        camp.extra["max_wall_s"] = round(max(w for _rc, w, *_ in results), 2)
        camp.extra["timeout_runs"] = sum(1 for s in S if s.get("timeout"))
        finding(camp, tmp)
    finally:
        shutil.rmtree(tmp, ignore_errors=True)
    camp.rule = ("real vncdo processes (python -c ... vncdo()) against scripted loopback servers: nobody listening; for RFB 3.3/3.7/3.8: "
                 "close / reset at each step of the handshake, RFB refusal with and without reason, VNC authentication failure, "
                 "unsupported security type; for five scripts (keys, pauses, pointer, capture, mixed) with and without VNC "
                 "authentication: a well-behaved server, and close / reset / unknown message / unknown encoding / silence (+ --timeout) "
                 "at the point the script depends on the server; timeouts before and after the banner and during a long pause; "
                 "12 MiB of output against a server that reads all, stops reading (--timeout) or resets after 64 KiB; judged: 0 iff "
                 "the scenario is a completed script closed by vncdo (server saw EOF), termination, wall time <= T + 1 s + 2 x measured process cost; the "
                 "status machine compared on the scenario's event sequence; non-trivial = scenario")
    return camp


def finding(camp, tmp):
    """a protocol abort followed, in the same TCP segment, by a valid update that lets the script finish"""
    cap = os.path.join(tmp, "f.png")
    acts = handshake(b"003.008") + [("recv_until_fbur",), ("send", b"\x63" + fbu_raw()), ("silent",)]
    srv = Server(acts)
    rc, wall, out = run_vncdo(srv.port, ["capture", cap])
    srv.thread.join(timeout=5)
    if rc == 0:
        camp.known_hits.append("the server sends an unknown message type and, in the same segment, a valid update: the client calls "
                               "loseConnection but goes on parsing the buffered bytes, the pending capture completes and vncdo exits 0 "
                               "after a protocol abort (finding c09-abort-then-buffered-update)")


def replay(payload):
    return True, "replay: scenario " + str(payload.get("case", {}).get("scenario")) + "; re-run ./check C09 (real processes)"
