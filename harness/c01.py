"""C01 - server stream segmentation never changes client behaviour."""
import random
import struct

import common
import rfbgen
import rfbreal
from rfbcamp import Batch, case_payload, cfg_from_payload, first_diff, observable
from rfbreal import Cfg, run_real

TRUSTED_BASE = ["Model/Engine.v + Model/Rfb.v hand-written transliteration of rfb.RFBClient; struct formats and the expect "
                "graph regenerated from the source (Gen/Formats.v)", "harness/rfbgen.py: RFC 6143 server written by hand",
                "zlib inflate is an oracle tape recorded from the real decompressobj",
                "in-memory transport: chunks are delivered as consecutive dataReceived calls (Twisted's transport is trusted)"]
ASSUMPTIONS = ["stream begins with a banner that normalises to 'RFB 000.000\\n' and names a version >= 3.3",
               "CLI scripts with timers are C08's subject; here the client is driven by the server stream only"]
EXTRA_VO = ["Proofs/RfbTieHandshake.vo", "Proofs/RfbTieMessages.vo"]

SPU = struct.pack("!BxHHHHHixxxx", 0, 1, 0, 0, 1, 1, 0)


def vm_match(d):
    return len(d) == 20 and d[0] == SPU[0] and d[2:16] == SPU[2:16]


def run(tier, seed, model):
    camp = common.Campaign()
    rng = random.Random(seed * 7919 + 1)
    nsess = 70 if tier == "quick" else 1500
    tail = 7 if tier == "quick" else 10
    batch = Batch(model, camp, "C01")
    for i in range(nsess):
        variant = rng.choice([0, 1, 1, 2])
        pw = rng.choice([None, "pw", "longerpassword"])
        s = rfbgen.gen_session(rng, variant, pw, want_success=(rng.random() < 0.85))
        cfg = Cfg(variant=variant, password=pw, username=rng.choice([None, "bob"]), nocursor=rng.random() < 0.3,
                  pseudocursor=rng.random() < 0.3, waiter=(variant != 0 and rng.random() < 0.3))
        data = bytes(s.data)
        whole = run_real(cfg, [data])
        ref = observable(whole)
        chs = rfbgen.chunkings(rng, data, s.boundaries, n_random=5, exhaustive_tail=tail)
        camp.count("outcome:" + str(s.expect.get("outcome")))
        for k, v in s.notes.items():
            camp.count(k, v)
        for ci, chunks in enumerate(chs):
            camp.evaluations += 1
            r = whole if ci == 0 else run_real(cfg, chunks)
            if len(chunks) > 1:
                camp.nontrivial.add((i, tuple(len(c) for c in chunks)))
            if observable(r) != ref:
                d = first_diff(r["events"], whole["events"])
                camp.oracle_failures.append({"kind": "oracle", "property": "C01",
                                             "case": case_payload(cfg, chunks, {"session": s.expect.get("outcome")}),
                                             "what": f"chunked delivery ({len(chunks)} chunks, sizes {[len(c) for c in chunks][:12]}) "
                                                     f"differs from whole delivery: first differing event {d}, "
                                                     f"end state {r['final'][0]} vs {whole['final'][0]}"})
                break
            if ci < 14 or ci % 9 == 0:
                batch.add(cfg, chunks, whole["tape"], r, cfg.variant != 0, "main")
        if len(camp.samples) < 4:
            camp.samples.append({"variant": variant, "stream_bytes": len(data), "outcome": s.expect.get("outcome"),
                                 "chunkings": len(chs), "example_chunk_sizes": [len(c) for c in chs[-1]][:10]})
    long_streams(camp, rng, 4 if tier == "quick" else 40)
    vmware(camp, rng, batch, 25 if tier == "quick" else 400)
    batch.resolve(camp, "C01")
    camp.rule = ("grammar-derived server sessions (all handshake variants, every message type, every encoding and "
                 "pseudo-encoding, 5 accepted + 6 unaccepted pixel formats) x chunkings: whole, byte-at-a-time, single cuts at "
                 "field boundaries +-1, random multi-cuts, and ALL 2^(k-1) chunkings of the last k bytes; the real client's "
                 "callbacks/writes/screen under each chunking compared with its own unchunked run (oracle) and with the "
                 "extracted Coq model; non-trivial = chunking with >= 2 chunks (distinct by session and cut positions); "
                 "VMware variant: same with no matching chunk, plus the documented workaround chunk at a message boundary")
    return camp


def long_streams(camp, rng, n):
    """many protocol steps inside ONE chunk (hundreds of small messages, rectangles of many tiles): the dispatch loop must
    iterate, however long the buffered stream is; compared with the same bytes delivered in pieces"""
    for i in range(n):
        s = rfbgen.gen_session(rng, 1, None, want_success=True, native=rfbgen.RGB32, nmsgs=0, size=(64, 64))
        if not s.established:
            continue
        kind = ["bells", "raw-updates", "mixed", "big-cuttext"][i % 4]
        body = b""
        if kind == "big-cuttext":
            # a clipboard of several hundred KiB, then ordinary traffic, in one segment / in pieces
            n = rng.choice([262145, 300000, 524288])
            body += b"\x03\0\0\0" + struct.pack("!I", n) + bytes(rng.getrandbits(8) for _ in range(64)) * (n // 64) + b"z" * (n % 64)
            body += b"\x02" + b"\0\0\0\x01" + struct.pack("!HHHHi", 1, 1, 2, 1, 0) + bytes(8)
        if kind in ("bells", "mixed"):
            body += b"\x02" * rng.randrange(700, 1500)
        if kind in ("raw-updates", "mixed"):
            for _ in range(rng.randrange(150, 300)):
                x, y = rng.randrange(60), rng.randrange(60)
                body += b"\0\0\0\x01" + struct.pack("!HHHHi", x, y, 2, 1, 0) + bytes(rng.getrandbits(8) for _ in range(8))
        body += b"\x03\0\0\0" + struct.pack("!I", 3) + b"end"
        data = bytes(s.data) + body
        cfg = Cfg(variant=rng.choice([0, 1]), nocursor=True)
        whole = run_real(cfg, [data])
        hs = len(s.data)
        for chunks in ([data[:hs], data[hs:]], [data[j:j + 97] for j in range(0, len(data), 97)]):
            camp.evaluations += 1
            camp.count("long-stream:" + kind)
            camp.nontrivial.add(("long", i, len(chunks)))
            r = run_real(cfg, chunks)
            if observable(r) != observable(whole):
                camp.oracle_failures.append({"kind": "oracle", "property": "C01",
                                             "case": {"cfg": {"variant": cfg.variant, "nocursor": True}, "long_stream": kind, "bytes": len(data)},
                                             "what": f"a {len(data)}-byte stream ({kind}) delivered in one chunk ends {whole['final'][:2]} with "
                                                     f"{len(whole['events'])} events; delivered in {len(chunks)} chunks it ends {r['final'][:2]} "
                                                     f"with {len(r['events'])} events"})
                return


def vmware(camp, rng, batch, n):
    """VMWareClient: held to the same standard except for the documented workaround"""
    known_hit = False
    for i in range(n):
        s = rfbgen.gen_session(rng, 1, None, want_success=True, native=rfbgen.RGB32, nmsgs=rng.choice([1, 2, 3]),
                               size=(8, 8))
        if not s.established:
            continue
        cfg3 = Cfg(variant=3, nocursor=True)
        cfg1 = Cfg(variant=1, nocursor=True)
        data = bytes(s.data)
        ref = run_real(cfg1, [data])
        if ref["final"][0] != "idle" or s.findings:
            continue
        # (a) chunkings without a matching chunk behave like the plain library client
        for chunks in rfbgen.chunkings(rng, data, s.boundaries, n_random=4, exhaustive_tail=4)[:14]:
            if any(vm_match(c) for c in chunks):
                continue
            camp.evaluations += 1
            camp.count("vmware-nomatch")
            r = run_real(cfg3, chunks)
            camp.nontrivial.add(("vm", i, tuple(len(c) for c in chunks)))
            if observable(r) != observable(ref):
                camp.oracle_failures.append({"kind": "oracle", "property": "C01", "case": case_payload(cfg3, chunks),
                                             "what": "VMWareClient differs from VNCDoToolClient on a chunking with no workaround chunk: "
                                                     f"{first_diff(r['events'], ref['events'])}"})
                return
            batch.add(cfg3, chunks, ref["tape"], r, True, "vmware-nomatch")
        # (b) the documented workaround: a chunk that is exactly the 1x1 raw update of the top-left pixel,
        #     at a message boundary, is answered with a full refresh request and not applied
        pixel = bytes([rng.getrandbits(8) for _ in range(4)])
        msg = b"\x00" + struct.pack("!xH", 1) + struct.pack("!HHHHi", 0, 0, 1, 1, 0) + pixel
        assert vm_match(msg)
        chunks = [data, msg, b"\x02"]
        r = run_real(cfg3, chunks)
        base = run_real(cfg1, [data, b"\x02"])
        w, h = s.size
        expect_events = list(base["events"])
        # the refresh request is written between the two parts
        pre = run_real(cfg1, [data])["events"]
        req = struct.pack("!BBHHHH", 3, 0, 0, 0, w, h)
        exp = rfbreal.merge_writes(pre + [("W", req)] + base["events"][len(pre):]) if base["events"][:len(pre)] == pre else None
        camp.evaluations += 1
        camp.count("vmware-workaround")
        def loose(evs):
            # which desktop the refresh request names is C06's / C19's business: any non-incremental request counts here
            return [("W", b"\x03\x00<refresh>") if (e[0] == "W" and len(e[1]) == 10 and e[1][:2] == b"\x03\x00") else e for e in evs]
        if exp is not None and (loose(r["events"]) != loose(exp) or r["screen"] != base["screen"]):
            camp.oracle_failures.append({"kind": "oracle", "property": "C01", "case": case_payload(cfg3, chunks),
                                         "what": "VMWareClient workaround: the 1x1 top-left update chunk should be answered with a "
                                                 f"full refresh request and not applied: {first_diff(r['events'], exp)}"})
            return
        batch.add(cfg3, chunks, ref["tape"], r, True, "vmware-workaround")
        # (b') the same update glued to the message that follows it is NOT the workaround case: applied as usual
        chunks = [data, msg + b"\x02"]
        r = run_real(cfg3, chunks)
        base2 = run_real(cfg1, [data + msg + b"\x02"])
        camp.evaluations += 1
        camp.count("vmware-update-glued-to-next-message")
        if observable(r) != observable(base2):
            camp.oracle_failures.append({"kind": "oracle", "property": "C01", "case": case_payload(cfg3, chunks),
                                         "what": "VMWareClient: a chunk that begins with the 1x1 top-left update but carries more data is not "
                                                 f"the documented workaround case, yet it was not processed normally: {first_diff(r['events'], base2['events'])}"})
            return
        # (b'') the same update arriving in pieces (each piece its own chunk) is no workaround chunk either
        base3 = run_real(cfg1, [data + msg + b"\x02"])
        for k in ([16, 4, 1, 19, 2, 12] if i % 3 == 0 else [16, rng.randrange(1, 20)]):
            chunks = [data, msg[:k], msg[k:], b"\x02"]
            r = run_real(cfg3, chunks)
            camp.evaluations += 1
            camp.count("vmware-update-in-pieces")
            camp.nontrivial.add(("vm-pieces", i, k))
            if observable(r) != observable(base3):
                camp.oracle_failures.append({"kind": "oracle", "property": "C01", "case": case_payload(cfg3, chunks),
                                             "what": f"VMWareClient: the 1x1 top-left update delivered as {k} + {20 - k} bytes (no chunk is that update) "
                                                     f"was not processed normally: {first_diff(r['events'], base3['events'])}"})
                return
        # (c) KNOWN FINDING: the same 20 bytes in the middle of a raw rectangle
        if not known_hit:
            inner = SPU[:16] + b"\x01\x02\x03\x04"
            rect = b"\x00" + struct.pack("!xH", 1) + struct.pack("!HHHHi", 0, 0, 5, 1, 0)
            chunks2 = [data, rect, inner, b"\x02"]
            r2 = run_real(cfg3, chunks2)
            b2 = run_real(cfg1, [data + rect + inner + b"\x02"])
            if observable(r2) != observable(b2):
                known_hit = True
                camp.known_hits.append("VMWareClient: a 20-byte chunk matching the 1x1 update pattern in the middle of a raw "
                                       "rectangle is dropped (finding vmware-mid-message-match)")


def replay(payload):
    case = payload["case"]
    cfg = cfg_from_payload(case["cfg"])
    chunks = [bytes.fromhex(c) for c in case["chunks"]]
    whole_cfg = cfg if cfg.variant != 3 else Cfg(**{**cfg.__dict__, "variant": 1})
    a = run_real(cfg, chunks)
    b = run_real(whole_cfg, [b"".join(chunks)])
    ok = observable(a) == observable(b)
    return ok, ("replay: chunked and whole delivery agree" if ok else
                f"replay: chunked delivery differs from whole delivery: {first_diff(a['events'], b['events'])}")
