"""Server side of RFB written from RFC 6143 (independent of the client under test):
pixel formats, encoders for every encoding the client negotiates, handshakes, server messages,
and the reference canvas (the C12 composition rule) that says what the screen must be."""
from __future__ import annotations

import random
import struct
import zlib
from collections import Counter


# ----------------------------------------------------------------------------- pixel formats

class Fmt:
    def __init__(self, bpp, depth, big, true, rmax, gmax, bmax, rs, gs, bs):
        self.t = (bpp, depth, big, true, rmax, gmax, bmax, rs, gs, bs)
        self.bpp, self.depth, self.big, self.true = bpp, depth, big, true
        self.rmax, self.gmax, self.bmax, self.rs, self.gs, self.bs = rmax, gmax, bmax, rs, gs, bs
        self.bypp = (bpp + 7) // 8

    def block(self):
        return struct.pack("!BB??HHHBBBxxx", *self.t)

    def pix(self, v):
        return v.to_bytes(self.bypp, "big" if self.big else "little")

    def cpixel(self, v):
        """RFC 6143 §7.7.5: 3 bytes when bpp=32, depth<=24 and the colour bits fit in 3 bytes"""
        if self.bpp == 32 and self.depth <= 24:
            full = v.to_bytes(4, "big" if self.big else "little")
            top = max(self.rmax << self.rs, self.gmax << self.gs, self.bmax << self.bs)
            if top < (1 << 24):   # fits in the least significant 3 bytes
                return full[1:] if self.big else full[:3]
            return full[:3] if self.big else full[1:]
        return self.pix(v)

    def rgb(self, v):
        """what the colour of pixel value v is, as 8-bit RGB (floor scaling of each channel)"""
        def ch(shift, mx):
            c = (v >> shift) & mx
            return c * 255 // mx if mx else 0
        return (ch(self.rs, self.rmax), ch(self.gs, self.gmax), ch(self.bs, self.bmax))

    def rand_pixel(self, rng, palette=None):
        if palette:
            return rng.choice(palette)
        v = rng.getrandbits(self.bpp)
        if self.bpp == 32 and self.depth <= 24 and not (self.rs == 8 or self.gs == 24 or self.bs == 24):
            pass
        return v

    def __repr__(self):
        return f"Fmt{self.t}"


RGB32 = Fmt(32, 24, False, True, 255, 255, 255, 0, 8, 16)
BGR32 = Fmt(32, 24, False, True, 255, 255, 255, 16, 8, 0)
RGB24 = Fmt(24, 24, False, True, 255, 255, 255, 0, 8, 16)
BGR24 = Fmt(24, 24, False, True, 255, 255, 255, 16, 8, 0)
BGR16 = Fmt(16, 16, False, True, 31, 63, 31, 11, 5, 0)
ACCEPTED = [RGB32, BGR32, RGB24, BGR24, BGR16]
UNACCEPTED = [Fmt(8, 8, False, True, 7, 7, 3, 0, 3, 6), Fmt(32, 24, True, True, 255, 255, 255, 16, 8, 0),
              Fmt(16, 15, False, True, 31, 31, 31, 10, 5, 0), Fmt(32, 32, False, True, 255, 255, 255, 0, 8, 16),
              Fmt(8, 8, False, False, 0, 0, 0, 0, 0, 0), Fmt(32, 24, False, False, 255, 255, 255, 0, 8, 16)]


# ----------------------------------------------------------------------------- reference canvas (C12)

class RefCanvas:
    """Every pixel is the value most recently sent for it, never-sent pixels are black; the
    image grows to contain everything received; a desktop-size change makes it exactly (w, h)
    keeping what fits."""

    def __init__(self):
        self.w = self.h = None
        self.px = {}

    def _ensure(self, w, h):
        if self.w is None:
            self.w, self.h = w, h
        else:
            self.w, self.h = max(self.w, w), max(self.h, h)

    def put(self, x, y, w, h, rgbs):
        """rgbs: row-major list of (r,g,b)"""
        if w <= 0 or h <= 0:
            return
        self._ensure(x + w, y + h)
        i = 0
        for yy in range(y, y + h):
            for xx in range(x, x + w):
                self.px[(xx, yy)] = rgbs[i]
                i += 1

    def resize(self, w, h):
        self.w, self.h = w, h
        self.px = {k: v for k, v in self.px.items() if k[0] < w and k[1] < h}

    def tobytes(self):
        if self.w is None:
            return None
        out = bytearray()
        for y in range(self.h):
            for x in range(self.w):
                out += bytes(self.px.get((x, y), (0, 0, 0)))
        return (self.w, self.h), bytes(out)


# ----------------------------------------------------------------------------- encoders

def region(fb, x, y, w, h):
    return [fb[yy][x:x + w] for yy in range(y, y + h)]


def enc_raw(fmt, rows):
    return b"".join(fmt.pix(v) for row in rows for v in row)


def runs_cover(cur, target, w, h, maxw, maxh):
    """sub-rectangles (x, y, w, h, value) that turn canvas [cur] into [target]: horizontal runs,
    sometimes grown vertically"""
    subs = []
    cur = [row[:] for row in cur]
    for y in range(h):
        x = 0
        while x < w:
            if cur[y][x] == target[y][x]:
                x += 1
                continue
            v = target[y][x]
            x2 = x
            while x2 < w and target[y][x2] == v and x2 - x < maxw:
                x2 += 1
            y2 = y + 1
            while y2 < h and y2 - y < maxh and all(target[y2][xx] == v for xx in range(x, x2)):
                y2 += 1
            for yy in range(y, y2):
                for xx in range(x, x2):
                    cur[yy][xx] = v
            subs.append((x, y, x2 - x, y2 - y, v))
            x = x2
    return subs


def decoys(rng, bg, w, h, maxw, maxh, colours):
    """legal but wasteful sub-rectangles painted first and overdrawn later (order matters)"""
    cur = [[bg] * w for _ in range(h)]
    subs = []
    if w and h and rng.random() < 0.3:
        for _ in range(rng.randrange(1, 3)):
            sx, sy = rng.randrange(w), rng.randrange(h)
            sw, sh = rng.randrange(1, min(maxw, w - sx) + 1), rng.randrange(1, min(maxh, h - sy) + 1)
            v = rng.choice(colours)
            subs.append((sx, sy, sw, sh, v))
            for yy in range(sy, sy + sh):
                for xx in range(sx, sx + sw):
                    cur[yy][xx] = v
    return cur, subs


def enc_rre(fmt, rows, rng, corre=False):
    h = len(rows)
    w = len(rows[0]) if h else 0
    flat = [v for r in rows for v in r]
    bg = Counter(flat).most_common(1)[0][0] if flat else 0
    if rng.random() < 0.15 and flat:
        bg = rng.choice(flat)
    lim = 255 if corre else 65535
    cur, subs = decoys(rng, bg, w, h, lim, lim, flat or [0])
    subs += runs_cover(cur, rows, w, h, lim, lim)
    out = struct.pack("!I", len(subs)) + fmt.pix(bg)
    for (sx, sy, sw, sh, v) in subs:
        out += fmt.pix(v) + (struct.pack("!BBBB", sx, sy, sw, sh) if corre else struct.pack("!HHHH", sx, sy, sw, sh))
    return out, len(subs)


def enc_hextile(fmt, rows, rng, stats):
    h = len(rows)
    w = len(rows[0]) if h else 0
    out = b""
    allcols = [v for r in rows for v in r] or [0]
    bg = fg = None       # what a strict decoder may assume is carried over
    for ty in range(0, h, 16):
        for tx in range(0, w, 16):
            tw, th = min(16, w - tx), min(16, h - ty)
            tile = [r[tx:tx + tw] for r in rows[ty:ty + th]]
            flat = [v for r in tile for v in r]
            cols = Counter(flat)
            choice = rng.random()
            if choice < 0.2 or (len(cols) > 8 and choice < 0.6):
                out += b"\x01" + enc_raw(fmt, tile)
                # RFC 6143 7.7.4: an unset Background/ForegroundSpecified bit means "the same as the last tile"; a raw tile
                # specifies neither, so the colours survive it (the client carries them): half of the streams rely on that,
                # the other half re-specify after a raw tile as libvncserver does
                if rng.random() < 0.5:
                    bg = fg = None
                else:
                    stats["hextile-carry-across-raw"] += 1
                stats["hextile-raw"] += 1
                continue
            tbg = cols.most_common(1)[0][0]
            if len(cols) == 2 and fg in cols and rng.random() < 0.8:
                # use the carried foreground: the other colour is this tile's background
                tbg = [c for c in cols if c != fg][0]
            sub = 0
            body = b""
            if tbg != bg or rng.random() < 0.2:
                sub |= 2
                body += fmt.pix(tbg)
            bg = tbg
            if len(cols) == 1:
                # solid tile; sometimes with a (useless but legal) foreground or zero subrects
                if rng.random() < 0.3:
                    # a foreground nobody uses in this tile, but which later tiles may rely on
                    fg = rng.choice(allcols)
                    sub |= 4
                    body += fmt.pix(fg)
                if rng.random() < 0.15:
                    sub |= 8
                    body += b"\x00"
                stats["hextile-solid"] += 1
                out += bytes([sub]) + body
                continue
            if len(cols) == 2 and rng.random() < 0.8:
                tfg = [c for c in cols if c != tbg][0]
                if tfg != fg or rng.random() < 0.3:
                    sub |= 4
                    body += fmt.pix(tfg)
                fg = tfg
                cur = [[tbg] * tw for _ in range(th)]
                subs = runs_cover(cur, tile, tw, th, 16, 16)
                sub |= 8
                body += bytes([len(subs)])
                for (sx, sy, sw, sh, _v) in subs:
                    body += bytes([(sx << 4) | sy, ((sw - 1) << 4) | (sh - 1)])
                stats["hextile-fg"] += 1
                out += bytes([sub]) + body
                continue
            cur, subs = decoys(rng, tbg, tw, th, 16, 16, flat)
            subs += runs_cover(cur, tile, tw, th, 16, 16)
            if len(subs) > 255:
                # too many for one tile: fall back to raw (what a real encoder does)
                out += b"\x01" + enc_raw(fmt, tile)
                if rng.random() < 0.5:
                    bg = fg = None
                stats["hextile-raw"] += 1
                continue
            sub |= 8 | 16
            body += bytes([len(subs)])
            for (sx, sy, sw, sh, v) in subs:
                body += fmt.pix(v) + bytes([(sx << 4) | sy, ((sw - 1) << 4) | (sh - 1)])
            fg = None                   # strict reading: re-specify after coloured subrects
            stats["hextile-coloured"] += 1
            out += bytes([sub]) + body
    return out


def rle_run(n):
    """run length n >= 1 encoded as (n-1) in 255-continuation form"""
    n -= 1
    out = b""
    while n >= 255:
        out += b"\xff"
        n -= 255
    return out + bytes([n])


def enc_zrle_tiles(fmt, rows, rng, stats, force=None):
    """the uncompressed tile stream; returns (bytes, list of sub-encoding kinds used)"""
    h = len(rows)
    w = len(rows[0]) if h else 0
    out = b""
    kinds = []
    for ty in range(0, h, 64):
        for tx in range(0, w, 64):
            tw, th = min(64, w - tx), min(64, h - ty)
            tile = [r[tx:tx + tw] for r in rows[ty:ty + th]]
            flat = [v for r in tile for v in r]
            cols = list(Counter(flat))
            options = ["raw", "plainrle"]
            if len(cols) == 1:
                options += ["solid"] * 3
            if 2 <= len(cols) <= 16:
                options += ["packed"] * 3
            if 2 <= len(cols) <= 127:
                options += ["palrle"] * 2
            kind = force if force in options else rng.choice(options)
            kinds.append((kind, tw, th, len(cols)))
            stats["zrle-" + kind] += 1
            if kind == "raw":
                out += b"\x00" + b"".join(fmt.cpixel(v) for v in flat)
            elif kind == "solid":
                out += b"\x01" + fmt.cpixel(flat[0])
            elif kind == "packed":
                pal = cols[:]
                rng.shuffle(pal)
                bits = 1 if len(pal) == 2 else 2 if len(pal) <= 4 else 4
                out += bytes([len(pal)]) + b"".join(fmt.cpixel(v) for v in pal)
                for row in tile:           # each row padded to a whole byte (RFC 6143 §7.7.5)
                    acc = 0
                    nb = 0
                    for v in row:
                        acc = (acc << bits) | pal.index(v)
                        nb += bits
                        if nb == 8:
                            out += bytes([acc])
                            acc = nb = 0
                    if nb:
                        out += bytes([acc << (8 - nb)])
            elif kind == "plainrle":
                out += b"\x80"
                i = 0
                while i < len(flat):
                    j = i
                    while j < len(flat) and flat[j] == flat[i]:
                        j += 1
                    if rng.random() < 0.2 and j - i > 1:      # a conforming encoder may split runs
                        j = i + rng.randrange(1, j - i)
                    out += fmt.cpixel(flat[i]) + rle_run(j - i)
                    i = j
            else:
                pal = cols[:]
                rng.shuffle(pal)
                out += bytes([128 + len(pal)]) + b"".join(fmt.cpixel(v) for v in pal)
                i = 0
                while i < len(flat):
                    j = i
                    while j < len(flat) and flat[j] == flat[i]:
                        j += 1
                    idx = pal.index(flat[i])
                    if j - i == 1 or rng.random() < 0.1:
                        out += bytes([idx])
                        j = i + 1
                    else:
                        out += bytes([idx | 0x80]) + rle_run(j - i)
                    i = j
    return out, kinds


def enc_cursor(fmt, rows, maskbits):
    h = len(rows)
    w = len(rows[0]) if h else 0
    out = enc_raw(fmt, rows)
    for y in range(h):
        for bx in range(0, w, 8):
            b = 0
            for k in range(8):
                if bx + k < w and maskbits[y][bx + k]:
                    b |= 0x80 >> k
            out += bytes([b])
    return out


ENC = {"raw": 0, "copyrect": 1, "rre": 2, "corre": 4, "hextile": 5, "zrle": 16,
       "cursor": -239, "desktopsize": -223, "lastrect": -224, "qemu": -258}


def rect_header(x, y, w, h, enc):
    return struct.pack("!HHHHi", x, y, w, h, enc)


# ----------------------------------------------------------------------------- sessions

class Session:
    """A generated server stream with everything the oracles need."""

    def __init__(self):
        self.data = bytearray()
        self.boundaries = []        # offsets where a message / field group starts
        self.fmt = None             # pixel format in force after the handshake
        self.native = None
        self.canvas = RefCanvas()
        self.notes = Counter()
        self.expect = {}            # handshake expectations for C03
        self.messages = []          # ("fbu", nrects, [...]) | ("bell",) | ("cut", bytes) | ("cmap", first, n)
        self.cursor_sent = False
        self.findings = set()       # known-finding signatures this stream triggers
        self.zlib = zlib.compressobj(6)
        self.established = False

    def add(self, b):
        self.boundaries.append(len(self.data))
        self.data += b


def banner(maj, minor):
    return b"RFB %03d.%03d\n" % (maj, minor)


SUPPORTED = [(3, 3), (3, 7), (3, 8), (3, 889), (4, 0), (4, 1), (5, 0)]


def negotiated(maj, minor):
    best = max((v for v in SUPPORTED if v <= (maj, minor)), default=None)
    if best is None:
        return None
    return min(best, (3, 8))


def reason_text(rng, fill, lengths):
    """a failure reason: RFC 6143 gives it a length and bytes, not an encoding - ASCII, Latin-1, GBK, a UTF-8 sequence cut
    by the length field, or arbitrary binary"""
    n = rng.choice(lengths)
    r = rng.random()
    if r < 0.5 or n == 0:
        return fill * n
    if r < 0.65:
        return ("Zugriff verweigert: ung\xfcltiges Kennwort ".encode("latin-1") * (n // 40 + 1))[:n]
    if r < 0.8:
        return ("\u8ba4\u8bc1\u5931\u8d25".encode("gbk") * (n // 8 + 1))[:n]
    if r < 0.9:
        return ("\u00e9\u20ac".encode("utf-8") * (n // 5 + 1))[:n]       # may end inside a multi-byte sequence
    return bytes(rng.getrandbits(8) for _ in range(n))


# security types this client does not implement: registered ones (RA2, Tight, VeNCrypt, ...) and numbers nobody has registered
OTHER_SECTYPES = [5, 16, 19, 22, 113, 25, 77, 100, 127, 150, 200, 255]


def gen_handshake(rng, s: Session, variant, password, *, want_success=None, native=None, version=None,
                  size=None):
    """Appends a handshake. Fills s.expect: version, sectype, outcome in
    {'established','refused','authfailed','nopassword','unsupported-sec','bad-banner','hang'}"""
    if version is None:
        r = rng.random()
        if r < 0.75:
            version = rng.choice(SUPPORTED)
        elif r < 0.9:
            version = rng.choice([(3, 4), (3, 5), (3, 6), (3, 9), (3, 100), (3, 888), (3, 890), (3, 999), (4, 2),
                                  (5, 1), (9, 9), (999, 999), (4, 999)])
        else:
            version = (rng.randrange(3, 6), rng.randrange(3, 1000))
    maj, minor = version
    s.add(banner(maj, minor))
    ver = negotiated(maj, minor)
    s.expect = {"server_version": version, "version": ver, "writes": [banner(*ver)] if ver else []}
    ex = s.expect
    if ver is None:
        ex["outcome"] = "raises"
        return
    succeed = rng.random() < 0.8 if want_success is None else want_success
    sec = None
    if ver < (3, 7):
        if succeed:
            sec = rng.choice([1, 2]) if password is not None or variant == 2 else 1
        else:
            sec = rng.choice([0, 2, 1, 5, 30])
        s.add(struct.pack("!I", sec))
        if sec == 0:
            reason = reason_text(rng, b"x", [0, 1, 2, 40, 300])
            s.add(struct.pack("!I", len(reason)))
            if reason:
                s.add(reason)
            ex["outcome"] = "refused"
            return
        if sec not in (1, 2):
            ex["outcome"] = "unsupported-sec"
            return
    else:
        if succeed:
            pool = [1, 2, 30] if (password is not None or variant == 2) else [1]
            sec = rng.choice(pool)
            types = [sec] + [t for t in rng.sample(OTHER_SECTYPES + [0], rng.randrange(0, 3))]
            # keep sec the maximum supported one
            types = [t for t in types if t not in (1, 2, 30) or t == sec]
            rng.shuffle(types)
        else:
            k = rng.random()
            if k < 0.3:
                types = []
            elif k < 0.5:
                types = rng.sample(OTHER_SECTYPES, rng.randrange(1, 4))
            else:
                types = rng.sample([1, 2, 30, 5, 16, 77, 200], rng.randrange(1, 4))
        s.add(bytes([len(types)]))
        if not types:
            reason = reason_text(rng, b"r", [0, 1, 5, 255, 1000])
            s.add(struct.pack("!I", len(reason)))
            if reason:
                s.add(reason)
            ex["outcome"] = "refused"
            return
        s.add(bytes(types))
        sup = [t for t in types if t in (1, 2, 30)]
        if not sup:
            ex["outcome"] = "unsupported-sec"
            return
        sec = max(sup)
        ex["writes"].append(bytes([sec]))
    ex["sectype"] = sec
    need_result = True
    if sec == 2:
        chal = bytes(rng.getrandbits(8) for _ in range(16))
        s.add(chal)
        ex["challenge"] = chal
        if password is None and variant != 2:
            ex["outcome"] = "nopassword"
            return
        ex["writes"].append(("des", chal))
    elif sec == 30:
        klen = rng.choice([1, 2, 2, 4, 8, 16])
        g = rng.choice([2, 3, 5, 7])
        mod = bytes([rng.randrange(1, 256)]) + bytes(rng.getrandbits(8) for _ in range(klen - 1))
        if rng.random() < 0.1:
            mod = bytes([0]) * (klen - 1) + bytes([rng.randrange(2, 256)])
        skey = bytes(rng.getrandbits(8) for _ in range(klen))
        s.add(struct.pack("!HH", g, klen))
        s.add(mod)
        s.add(skey)
        ex["dh"] = (g, klen, mod, skey)
        ex["writes"].append(("ard", g, klen, mod, skey))
    elif sec == 1:
        need_result = ver >= (3, 8)
    if need_result:
        if succeed:
            result = 0
        else:
            result = rng.choice([1, 2, 1, 2, 3, 0xFFFFFFFF])
        s.add(struct.pack("!I", result))
        if result in (1, 2):
            if ver >= (3, 8):
                reason = reason_text(rng, b"f", [0, 1, 2, 255, 1000])
                s.add(struct.pack("!I", len(reason)))
                if reason:
                    s.add(reason)
                ex["reason"] = reason
            else:
                ex["reason"] = b"authentication failed" if result == 1 else b"too many tries to log in"
            ex["outcome"] = "authfailed"
            return
        if result != 0:
            ex["outcome"] = "bad-result"
            return
    # ClientInit is now sent; ServerInit follows
    if native is None:
        native = rng.choice(ACCEPTED) if rng.random() < 0.75 else rng.choice(UNACCEPTED)
    w, h = size if size else (rng.choice([1, 4, 8, 20, 64, 100]), rng.choice([1, 4, 8, 20, 64, 70]))
    name = bytes(rng.randrange(32, 127) for _ in range(rng.choice([0, 1, 5, 30])))
    s.serverinit_at = len(s.data)
    s.add(struct.pack("!HH16sI", w, h, native.block(), len(name)))
    if name:
        s.add(name)
    s.native = native
    s.size = (w, h)
    ex["outcome"] = "established"
    ex["writes"].append(("clientinit",))
    s.established = True
    if variant == 0:
        s.fmt = native
    elif any(native.t == a.t for a in ACCEPTED):
        s.fmt = native
    else:
        s.fmt = BGR16 if version == (3, 889) else RGB32
        ex["setpixelformat"] = s.fmt


def rand_fb(rng, fmt, w, h):
    if w and h and rng.random() < 0.45:
        # desktop-like content: a background with a few filled blocks (many solid and two-colour tiles)
        pal = [rng.getrandbits(fmt.bpp) for _ in range(rng.choice([2, 2, 3, 4]))]
        fb = [[pal[0]] * w for _ in range(h)]
        for _ in range(rng.randrange(0, 5)):
            bx, by = rng.randrange(w), rng.randrange(h)
            bw, bh = rng.randrange(1, w - bx + 1), rng.randrange(1, h - by + 1)
            c = rng.choice(pal)
            for yy in range(by, by + bh):
                for xx in range(bx, bx + bw):
                    fb[yy][xx] = c
        return fb
    npal = rng.choice([1, 2, 2, 3, 4, 5, 16, 17, 40, 200, 0])
    pal = [rng.getrandbits(fmt.bpp) for _ in range(npal)] if npal else None
    fb = []
    for _y in range(h):
        row = []
        for _x in range(w):
            if pal is None:
                row.append(rng.getrandbits(fmt.bpp))
            elif row and rng.random() < 0.6:
                row.append(row[-1])
            else:
                row.append(rng.choice(pal))
        fb.append(row)
    return fb


def gen_rect(rng, s: Session, encodings, maxdim=40):
    """one real rectangle; returns bytes and updates the reference canvas"""
    fmt = s.fmt
    enc = rng.choice(encodings)
    big = rng.random() < 0.08
    md = 140 if big else maxdim
    w = rng.choice([0, 1, 2, 3, 5, 7, 8, 9, 15, 16, 17, 31, 33, md]) if rng.random() < 0.6 else rng.randrange(0, md + 1)
    h = rng.choice([0, 1, 2, 3, 5, 7, 8, 16, 17, md // 2]) if rng.random() < 0.6 else rng.randrange(0, md // 2 + 1)
    if enc == "corre":
        w, h = min(w, 255), min(h, 255)
    if enc == "zrle" and rng.random() < 0.3:
        w = rng.choice([63, 64, 65, 66, 70, 129])
        h = rng.choice([1, 2, 3, 64, 65])
    x, y = rng.choice([0, 0, 1, 3, 10, 37]), rng.choice([0, 0, 2, 5, 21])
    s.notes[enc] += 1
    if w == 0 or h == 0:
        s.notes["zero-area"] += 1
    rows = rand_fb(rng, fmt, w, h)
    rgbs = [fmt.rgb(v) for r in rows for v in r]
    body = b""
    if enc == "raw":
        body = enc_raw(fmt, rows)
    elif enc == "copyrect":
        body = struct.pack("!HH", rng.randrange(0, 50), rng.randrange(0, 50))
        rgbs = None
    elif enc in ("rre", "corre"):
        body, n = enc_rre(fmt, rows, rng, corre=(enc == "corre"))
        s.notes[f"{enc}-subrects-{min(n, 3)}"] += 1
    elif enc == "hextile":
        body = enc_hextile(fmt, rows, rng, s.notes)
    elif enc == "zrle":
        tiles, kinds = enc_zrle_tiles(fmt, rows, rng, s.notes)
        comp = s.zlib.compress(tiles) + s.zlib.flush(zlib.Z_SYNC_FLUSH)
        body = struct.pack("!I", len(comp)) + comp
        if w and h and not any(fmt.t == a.t for a in (RGB32, BGR32)):
            s.findings.add("zrle-non32bpp")
        for (kind, tw, th, ncol) in kinds:
            if kind == "packed":
                bits = 1 if ncol == 2 else 2 if ncol <= 4 else 4
                if (tw * bits) % 8 != 0 and th > 1:
                    s.findings.add("zrle-packed-rows")
    hdr = rect_header(x, y, w, h, ENC[enc])
    if rgbs is not None:
        s.canvas.put(x, y, w, h, rgbs)
    return hdr, body, (x, y, w, h)


def gen_update(rng, s: Session, encodings, nrects=None, allow_pseudo=True):
    if nrects is None:
        nrects = rng.choice([0, 1, 1, 2, 3, 5])
    parts = []
    real = []
    for _ in range(nrects):
        r = rng.random()
        if allow_pseudo and r < 0.08:
            w, h = rng.choice([1, 5, 16, 30, 80]), rng.choice([1, 4, 16, 30])
            parts.append((rect_header(0, 0, w, h, ENC["desktopsize"]), b""))
            s.canvas.resize(w, h)
            s.size = (w, h)
            real.append((0, 0, w, h))
            s.notes["desktopsize"] += 1
        elif allow_pseudo and r < 0.14:
            w, h = rng.choice([0, 1, 7, 8, 9, 16]), rng.choice([0, 1, 3, 8])
            rows = rand_fb(rng, s.fmt, w, h)
            mask = [[rng.random() < 0.5 for _ in range(w)] for _ in range(h)]
            hx, hy = rng.randrange(0, 4), rng.randrange(0, 4)
            parts.append((rect_header(hx, hy, w, h, ENC["cursor"]), enc_cursor(s.fmt, rows, mask)))
            real.append((hx, hy, w, h))
            s.cursor_sent = True
            s.notes["cursor"] += 1
        elif allow_pseudo and r < 0.17:
            parts.append((rect_header(0, 0, 0, 0, ENC["qemu"]), b""))
            s.notes["qemu"] += 1
        else:
            hdr, body, pos = gen_rect(rng, s, encodings)
            parts.append((hdr, body))
            real.append(pos)
    use_last = allow_pseudo and rng.random() < 0.25
    count = len(parts)
    if use_last:
        count = rng.choice([0xFFFF, len(parts) + 1, len(parts) + 7])
        s.notes["lastrect"] += 1
    s.add(b"\x00" + struct.pack("!xH", count))
    for hdr, body in parts:
        s.add(hdr)
        if body:
            s.add(body)
    if use_last:
        s.add(rect_header(0, 0, 0, 0, ENC["lastrect"]))
    s.messages.append(("fbu", real))


def gen_other(rng, s: Session):
    k = rng.random()
    if k < 0.4:
        s.add(b"\x02")
        s.messages.append(("bell",))
        s.notes["bell"] += 1
    elif k < 0.7:
        text = bytes(rng.getrandbits(8) for _ in range(rng.choice([0, 1, 10, 300])))
        s.add(b"\x03" + struct.pack("!xxxI", len(text)))
        if text:
            s.add(text)
        s.messages.append(("cut", text))
        s.notes["cuttext"] += 1
    else:
        n = rng.choice([0, 1, 3, 20])
        first = rng.randrange(0, 256)
        cols = [tuple(rng.getrandbits(16) for _ in range(3)) for _ in range(n)]
        s.add(b"\x01" + struct.pack("!xHH", first, n))
        if n:
            s.add(b"".join(struct.pack("!HHH", *c) for c in cols))
        s.messages.append(("cmap", first, cols))
        s.notes["colourmap"] += 1


ALL_ENCODINGS = ["raw", "copyrect", "rre", "corre", "hextile", "zrle"]


def gen_session(rng, variant, password, *, nmsgs=None, encodings=None, want_success=True, native=None,
                version=None, allow_pseudo=True, size=None):
    s = Session()
    gen_handshake(rng, s, variant, password, want_success=want_success, native=native, version=version, size=size)
    if s.established:
        if nmsgs is None:
            nmsgs = rng.choice([0, 1, 2, 3, 5])
        encs = encodings or ALL_ENCODINGS
        for _ in range(nmsgs):
            if rng.random() < 0.7:
                gen_update(rng, s, encs, allow_pseudo=allow_pseudo)
            else:
                gen_other(rng, s)
    return s


# ----------------------------------------------------------------------------- chunkings

def chunkings(rng, data: bytes, boundaries, n_random=6, exhaustive_tail=8):
    """whole, byte-at-a-time (short streams), each boundary ±1 single cuts (sample), random multi-cuts,
    and every chunking of the last k bytes"""
    n = len(data)
    out = [[data]]
    if n <= 400:
        out.append([data[i:i + 1] for i in range(n)])
    cand = sorted({b + d for b in boundaries for d in (-1, 0, 1) if 0 < b + d < n})
    for c in rng.sample(cand, min(len(cand), 8)):
        out.append([data[:c], data[c:]])
    for _ in range(n_random):
        k = rng.randrange(1, 8)
        pool = cand if (cand and rng.random() < 0.6) else list(range(1, n))
        cuts = sorted(set(rng.sample(pool, min(k, len(pool))))) if pool else []
        prev = 0
        ch = []
        for c in cuts:
            ch.append(data[prev:c])
            prev = c
        ch.append(data[prev:])
        out.append(ch)
    k = min(exhaustive_tail, n - 1)
    if k > 0:
        head = data[:n - k]
        tail = data[n - k:]
        for maskbits in range(1 << (k - 1)) if k <= exhaustive_tail else []:
            ch = []
            cur = head + tail[:1] if False else None
        # all 2^(k-1) chunkings of the last k bytes, the head delivered whole with the first tail byte group
        for bits in range(1 << k):
            ch = [head] if head else []
            cur = b""
            for i in range(k):
                cur += tail[i:i + 1]
                if bits & (1 << i) or i == k - 1:
                    ch.append(cur)
                    cur = b""
            if bits & (1 << (k - 1)):
                out.append(ch)
    return out
