"""X11 keysym values (keysymdef.h) for the keys vncdotool names, written independently of /repo.
name in vncdo syntax -> (X11 keysym name, value)."""

_F = {f"f{i}": (f"F{i}", 0xFFBE + i - 1) for i in range(1, 21)}
_KP = {f"kp{i}": (f"KP_{i}", 0xFFB0 + i) for i in range(10)}

DOCUMENTED = {
    "bsp": ("BackSpace", 0xFF08), "tab": ("Tab", 0xFF09),
    "return": ("Return", 0xFF0D), "enter": ("Return", 0xFF0D),
    "esc": ("Escape", 0xFF1B), "ins": ("Insert", 0xFF63),
    "delete": ("Delete", 0xFFFF), "del": ("Delete", 0xFFFF),
    "home": ("Home", 0xFF50), "end": ("End", 0xFF57),
    "pgup": ("Page_Up", 0xFF55), "pgdn": ("Page_Down", 0xFF56),
    "left": ("Left", 0xFF51), "up": ("Up", 0xFF52), "right": ("Right", 0xFF53), "down": ("Down", 0xFF54),
    # legacy alias kept by upstream: "slash" is the backslash key
    "slash": ("backslash", 0x5C), "bslash": ("backslash", 0x5C), "fslash": ("slash", 0x2F),
    "spacebar": ("space", 0x20), "space": ("space", 0x20), "sb": ("space", 0x20),
    "lshift": ("Shift_L", 0xFFE1), "shift": ("Shift_L", 0xFFE1), "rshift": ("Shift_R", 0xFFE2),
    "lctrl": ("Control_L", 0xFFE3), "ctrl": ("Control_L", 0xFFE3), "rctrl": ("Control_R", 0xFFE4),
    "lmeta": ("Meta_L", 0xFFE7), "meta": ("Meta_L", 0xFFE7), "rmeta": ("Meta_R", 0xFFE8),
    "lalt": ("Alt_L", 0xFFE9), "alt": ("Alt_L", 0xFFE9), "ralt": ("Alt_R", 0xFFEA),
    "scrlk": ("Scroll_Lock", 0xFF14), "sysrq": ("Sys_Req", 0xFF15), "numlk": ("Num_Lock", 0xFF7F),
    "caplk": ("Caps_Lock", 0xFFE5), "pause": ("Pause", 0xFF13),
    "lsuper": ("Super_L", 0xFFEB), "super": ("Super_L", 0xFFEB), "rsuper": ("Super_R", 0xFFEC),
    "lhyper": ("Hyper_L", 0xFFED), "hyper": ("Hyper_L", 0xFFED), "rhyper": ("Hyper_R", 0xFFEE),
    "kpenter": ("KP_Enter", 0xFF8D),
    **_F, **_KP,
}
