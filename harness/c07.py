"""C07 - expect completes exactly when the screen matches, and keeps polling until then."""
import io
import math
import os
import random
import re
import shutil
import subprocess
import tempfile
from fractions import Fraction

import common
import clientops

from PIL import Image
from twisted.internet.defer import Deferred
from twisted.internet.testing import StringTransport

from vncdotool import client as vclient

TRUSTED_BASE = ["Model/Expect.v (crop, histogram, sum of squares, binary64 division/sqrt/<= via Coq's PrimFloat, evaluated by "
                "vm_compute from a generated cases file - not extracted); Pillow crop/histogram are the runtime and are compared",
                "Coq's primitive floats (kernel primitives of_uint63, div, sqrt, leb) stand for CPython's float arithmetic; compared "
                "bit-for-bit on tolerances at, one ulp below and one ulp above the computed RMS"]
ASSUMPTIONS = ["awaited images are RGB (what capture writes); the sum of squared bin differences is below 2^53",
               "the oracle is exact rational arithmetic (sum/768 <= maxrms^2); within 4 ulp of the boundary only the float model decides"]

COQ = common.COQ


def fhex(x: float) -> str:
    if x != x:
        return "nan"
    if x == math.inf:
        return "infinity"
    if x == -math.inf:
        return "neg_infinity"
    h = x.hex()                      # e.g. 0x1.8000000000000p+1
    return "(" + h + ")%float" if not h.startswith("-") else "(-" + h[1:] + ")%float"


def coq_rows(rows):
    return "[" + "; ".join("[" + "; ".join("(%d, %d, %d)" % p for p in r) + "]" for r in rows) + "]"


def run_cases_in_coq(cases, tmp, tag):
    """cases: list of (screen rows | None, (w, h), box, awaited rows, maxrms). -> list of bool, evaluated by vm_compute"""
    out = []
    shards = [cases[i::8] for i in range(8)]
    procs = []
    for si, shard in enumerate(shards):
        if not shard:
            procs.append(None)
            continue
        path = os.path.join(tmp, f"cases_{tag}_{si}.v")
        with open(path, "w") as f:
            f.write("From Coq Require Import ZArith List Bool PrimFloat.\nFrom VD Require Import Base.Bytes Model.Image Model.Expect.\n"
                    "Import ListNotations.\nOpen Scope Z_scope.\n")
            f.write("Definition case_t : Type := (option (Z * Z * list (list rgb)) * (Z * Z * Z * Z) * list (list rgb) * float)%type.\n"
                    "Definition run (c : case_t) : bool :=\n"
                    "  let '(scr, box, aw, m) := c in\n"
                    "  expect_matches (match scr with Some (w, h, r) => Some (mk_image w h r) | None => None end) box (histogram aw) m.\n")
            f.write("Definition cases : list case_t := [\n")
            items = []
            for scr, size, box, aw, m in shard:
                s = "None" if scr is None else "Some (%d, %d, %s)" % (size[0], size[1], coq_rows(scr))
                items.append("  (%s, (%d, %d, %d, %d), %s, %s)" % (s, box[0], box[1], box[2], box[3], coq_rows(aw), fhex(m)))
            f.write(";\n".join(items) + "].\n")
            f.write("Eval vm_compute in map run cases.\n")
        procs.append(subprocess.Popen(["timeout", "600", "coqc", "-Q", COQ, "VD", "-w", "-notation-overridden", path],
                                      stdout=subprocess.PIPE, stderr=subprocess.STDOUT))
    res = [None] * len(cases)
    for si, pr in enumerate(procs):
        if pr is None:
            continue
        o = pr.communicate()[0].decode()
        vals = re.findall(r"\b(true|false)\b", o.split("=", 1)[1] if "=" in o else "")
        if pr.returncode != 0 or len(vals) != len(shards[si]):
            raise RuntimeError(f"coqc on the C07 cases failed (rc={pr.returncode}, {len(vals)}/{len(shards[si])}): {o[-400:]}")
        for j, v in enumerate(vals):
            res[si + 8 * j] = (v == "true")
    return res


def new_client():
    c = vclient.VNCDoToolClient()
    c.factory = vclient.VNCDoToolFactory()
    c.makeConnection(StringTransport())
    c.width, c.height = 64, 64
    return c


def img_from_rows(rows):
    h = len(rows)
    w = len(rows[0]) if rows else 0
    im = Image.new("RGB", (w, h))
    im.putdata([p for r in rows for p in r])
    return im


def rows_of(im):
    w, h = im.size
    px = list(im.getdata())
    return [px[y * w:(y + 1) * w] for y in range(h)]


def real_expect(c, png_path, x, y, maxrms, region):
    """-> (completed_now, requests written)"""
    c.transport.clear()
    d = c.expectRegion(png_path, x, y, maxrms) if region else c.expectScreen(png_path, maxrms)
    done = not isinstance(d, Deferred)
    reqs = clientops.parse_c2s(c.transport.value())
    return done, reqs, d


def gen_case(rng):
    w, h = rng.randrange(1, 13), rng.randrange(1, 11)
    pal = [(rng.randrange(256), rng.randrange(256), rng.randrange(256)) for _ in range(rng.choice([1, 2, 3, 8]))]
    rows = [[rng.choice(pal) for _ in range(w)] for _ in range(h)]
    iw, ih = rng.randrange(1, w + 1), rng.randrange(1, h + 1)
    ox, oy = rng.randrange(0, w - iw + 1), rng.randrange(0, h - ih + 1)
    aw = [list(r[ox:ox + iw]) for r in rows[oy:oy + ih]]
    # perturb k pixels of the awaited image
    k = rng.choice([0, 0, 0, 1, 1, 2, 5, iw * ih])
    for _ in range(k):
        yy, xx = rng.randrange(ih), rng.randrange(iw)
        p = list(aw[yy][xx])
        ch = rng.randrange(3)
        p[ch] = (p[ch] + rng.choice([1, 1, 2, 128, 255])) % 256
        aw[yy][xx] = tuple(p)
    region = rng.random() < 0.8
    if region:
        x, y = rng.choice([(ox, oy)] * 5 + [(ox + 1, oy), (ox, oy + 1), (max(0, ox - 1), oy), (w - 1, h - 1), (w, h), (w + 3, 0)])
    else:
        x, y = 0, 0
    return rows, (w, h), aw, (iw, ih), (x, y), region


def exact_rms_sq(screen_rows, size, box, aw):
    """sum of squared histogram differences of the crop (black outside) vs the awaited image, exactly"""
    w, h = size
    crop = []
    for yy in range(box[1], box[3]):
        for xx in range(box[0], box[2]):
            crop.append(screen_rows[yy][xx] if (0 <= xx < w and 0 <= yy < h) else (0, 0, 0))
    awf = [p for r in aw for p in r]
    s = 0
    for ch in range(3):
        ha, hb = [0] * 256, [0] * 256
        for p in crop:
            ha[p[ch]] += 1
        for p in awf:
            hb[p[ch]] += 1
        s += sum((a - b) ** 2 for a, b in zip(ha, hb))
    return s


def run(tier, seed, model):
    camp = common.Campaign()
    rng = random.Random(seed * 7919 + 7)
    tmp = tempfile.mkdtemp(prefix="c07-")
    try:
        n = 240 if tier == "quick" else 6000
        coq_cases, meta = [], []
        for i in range(n):
            rows, size, aw, (iw, ih), (x, y), region = gen_case(rng)
            box = (x, y, x + iw, y + ih) if region else (0, 0, iw, ih)
            s = exact_rms_sq(rows, size, box, aw)
            rms = math.sqrt(s / 768)
            tols = [0.0, rms, math.nextafter(rms, math.inf), math.nextafter(rms, -math.inf) if rms > 0 else 0.0,
                    rng.choice([0.5, 1.0, 2.0, 10.0, rms * 0.9, rms * 1.1 + 0.01, float(int(rms)), 1e-9])]
            png = os.path.join(tmp, "aw.png")
            img_from_rows(aw).save(png)
            for m in tols:
                c = new_client()
                c.screen = img_from_rows(rows)
                done, reqs, d = real_expect(c, png, x, y, m, region)
                camp.evaluations += 1
                camp.count("region" if region else "screen")
                camp.count("sum=0" if s == 0 else "sum>0")
                camp.nontrivial.add((i, m))
                # oracle: exact arithmetic, away from the rounding boundary
                lhs, rhs = Fraction(s, 768), Fraction(m) ** 2
                near = abs(rms - m) <= 4 * math.ulp(max(rms, m, 1e-300))
                want = lhs <= rhs
                why = None
                if not near and done != want:
                    why = (f"RMS {rms!r} vs tolerance {m!r}: the wait {'completed' if done else 'did not complete'}, the statement says "
                           f"{'complete' if want else 'keep waiting'}")
                elif s == 0 and not done:
                    why = f"the region is pixel-identical to the awaited image but the wait did not complete at tolerance {m!r}"
                elif done and reqs:
                    why = f"the wait completed at once but {len(reqs)} request(s) were written"
                elif not done and reqs != [("FbUpdateRequest", 1, 0, 0, 64, 64)]:
                    why = f"a miss must send exactly one incremental whole-desktop request, got {reqs}"
                if why:
                    camp.oracle_failures.append({"kind": "oracle", "property": "C07",
                                                 "case": {"screen": rows, "awaited": aw, "x": x, "y": y, "maxrms": m.hex(), "region": region},
                                                 "what": f"screen {size}, awaited {iw}x{ih} at ({x},{y}): {why}"})
                    break
                coq_cases.append((rows, size, box, aw, m))
                meta.append((i, m, done))
            if len(camp.oracle_failures) >= 3:
                break
        # no screen yet: never matches, non-incremental request
        c = new_client()
        png = os.path.join(tmp, "one.png")
        img_from_rows([[(1, 2, 3)]]).save(png)
        done, reqs, d = real_expect(c, png, 0, 0, 1000.0, True)
        camp.evaluations += 1
        if done or reqs != [("FbUpdateRequest", 0, 0, 0, 64, 64)]:
            camp.oracle_failures.append({"kind": "oracle", "property": "C07", "case": {"noscreen": True},
                                         "what": f"no screen yet: completed={done}, requests {reqs} (one non-incremental request expected)"})
        coq_cases.append((None, (0, 0), (0, 0, 1, 1), [[(1, 2, 3)]], 1000.0))
        meta.append((-1, 1000.0, done))
        # the float/histogram model against the implementation, bit for bit
        got = run_cases_in_coq(coq_cases, tmp, "cmp")
        for g, (i, m, done) in zip(got, meta):
            if g != done:
                camp.model_mismatches.append({"property": "C07", "case": {"case": i, "maxrms": m.hex()},
                                              "what": f"case {i}, tolerance {m!r} ({m.hex()}): model says {'match' if g else 'miss'}, "
                                                      f"_expectCompare {'completed' if done else 'kept waiting'}"})
                break
        camp.extra["float_cases_bit_exact"] = len(coq_cases)
        polling(camp, rng, tmp, 80 if tier == "quick" else 2000)
        if not camp.oracle_failures:
            non_rgb_references(camp, rng, tmp, 60 if tier == "quick" else 1500)
        if not camp.oracle_failures:
            two_connections(camp, rng, tmp, 20 if tier == "quick" else 500)
        finding_empty_update(camp, tmp)
    finally:
        shutil.rmtree(tmp, ignore_errors=True)
    camp.rule = ("random screens (1..12 x 1..10, palettes of 1..8 colours) and awaited images cut from them with 0..all pixels "
                 "perturbed, region offsets at / next to / partly or wholly outside the screen, whole-screen waits; each with "
                 "tolerances 0, exactly the RMS, one ulp above, one ulp below, and others; real expectRegion/expectScreen on a "
                 "VNCDoToolClient with PNG files; judged by exact rational arithmetic and the request written; every decision "
                 "compared with the PrimFloat model evaluated by vm_compute; polling histories of 0..12 updates with the first match "
                 "at every position; non-trivial = (case, tolerance)")
    return camp


def two_connections(camp, rng, tmp, n):
    """two clients in one process: A waits for an image while B's server sends updates of its own, the segments of the two
    connections interleaved (A's update split after the rectangle header): every completed update of A that does not match
    costs A exactly one request, and the matching one completes A's wait"""
    import struct
    hs = b"RFB 003.008\n\x01\x01\0\0\0\0" + struct.pack("!HH16sI", 4, 3, bytes([32, 24, 0, 1, 0, 255, 0, 255, 0, 255, 0, 8, 16, 0, 0, 0]), 0)
    for i in range(n):
        clients = []
        for _ in range(2):
            c = vclient.VNCDoToolClient()
            c.factory = vclient.VNCDoToolFactory()
            c.factory.nocursor = True
            c.makeConnection(StringTransport())
            c.dataReceived(hs)
            clients.append(c)
        a, b = clients
        target = [[(rng.randrange(256), rng.randrange(256), rng.randrange(256)) for _ in range(4)] for _ in range(3)]
        png = os.path.join(tmp, "two.png")
        img_from_rows(target).save(png)
        a.transport.clear()
        d = a.expectScreen(png, 0)
        done = []
        d.addCallback(lambda r: done.append(1))
        first = clientops.parse_c2s(a.transport.value())
        camp.evaluations += 1
        camp.count("two-connections")
        camp.nontrivial.add(("two", i))
        why = None
        if first != [("FbUpdateRequest", 0, 0, 0, 4, 3)]:
            why = f"arming the wait wrote {first}"
        nupd = rng.randrange(1, 5)
        for k in range(nupd):
            if why:
                break
            match = k == nupd - 1
            rows = target if match else [[(rng.randrange(256), 1, 2) for _ in range(4)] for _ in range(3)]
            msg = fbu_raw(0, 0, rows)
            cut = rng.choice([4, 16, 16 + rng.randrange(1, 40)])
            other = fbu_raw(0, 0, [[(rng.randrange(256), 9, 9) for _ in range(4)] for _ in range(3)])
            ocut = rng.choice([4, 16, len(other)])
            a.transport.clear()
            a.dataReceived(msg[:cut])
            b.dataReceived(other[:ocut])           # the other connection's update begins while A's is half way
            a.dataReceived(msg[cut:])
            b.dataReceived(other[ocut:])
            reqs = clientops.parse_c2s(a.transport.value())
            if match and (not done or reqs):
                why = f"update #{k} shows the awaited image: completed={bool(done)}, requests {reqs}"
            elif not match and (done or reqs != [("FbUpdateRequest", 1, 0, 0, 4, 3)]):
                why = f"update #{k} does not match: completed={bool(done)}, requests {reqs}; exactly one incremental request expected"
        if why:
            camp.oracle_failures.append({"kind": "oracle", "property": "C07", "case": {"two_connections": i},
                                         "what": f"two connections in one process, segments interleaved: connection A: {why}"})
            return


def non_rgb_references(camp, rng, tmp, n):
    """awaited images that are not RGB files (greyscale, palette, bilevel, with alpha).  Their own histogram has another
    number of bins than a screen region's, so 'the RMS difference of the colour histograms' is either undefined (the wait
    never completes) or that of the image read as colours (convert('RGB')).  Judged one-sidedly: completing is wrong when the
    colour reading is clearly out of tolerance - then no reading lets the wait complete; a miss still costs exactly one request."""
    for i in range(n):
        w, h = rng.randrange(1, 9), rng.randrange(1, 7)
        mode = rng.choice(["L", "L", "P", "P", "RGBA", "1", "LA"])
        grey = [[rng.choice([0, 255]) if mode == "1" else rng.randrange(256) for _ in range(w)] for _ in range(h)]
        if mode == "P":
            ref = Image.new("P", (w, h))
            pal = [rng.randrange(256) for _ in range(768)]
            ref.putpalette(pal)
            ref.putdata([g for r in grey for g in r])
        elif mode == "RGBA":
            ref = Image.new("RGBA", (w, h))
            ref.putdata([(g, rng.randrange(256), rng.randrange(256), rng.randrange(256)) for r in grey for g in r])
        elif mode == "LA":
            ref = Image.new("LA", (w, h))
            ref.putdata([(g, rng.randrange(256)) for r in grey for g in r])
        else:
            ref = Image.new("L", (w, h))
            ref.putdata([g for r in grey for g in r])
            if mode == "1":
                ref = ref.convert("1")
        png = os.path.join(tmp, "nonrgb.png")
        ref.save(png)
        as_rgb = rows_of(Image.open(png).convert("RGB"))
        kind = rng.choice(["red-channel", "red-channel", "as-colours", "noise"])
        if kind == "red-channel":       # a screen whose first channel repeats the reference's first band, the others differ
            first = list(Image.open(png).getdata(0)) if mode not in ("1",) else [g for r in grey for g in r]
            rows = [[(first[y * w + x], rng.randrange(256), rng.randrange(256)) for x in range(w)] for y in range(h)]
        elif kind == "as-colours":
            rows = [list(r) for r in as_rgb]
        else:
            rows = [[(rng.randrange(256), rng.randrange(256), rng.randrange(256)) for _ in range(w)] for _ in range(h)]
        box = (0, 0, w, h)
        s2 = exact_rms_sq(rows, (w, h), box, as_rgb)
        rms = math.sqrt(s2 / 768)
        for tol in (0.0, rng.choice([0.05, rms * 0.5, rms * 0.9])):
            c = new_client()
            c.screen = img_from_rows(rows)
            done, reqs, d = real_expect(c, png, 0, 0, tol, rng.random() < 0.7)
            camp.evaluations += 1
            camp.count("non-rgb-reference:" + mode)
            camp.count("non-rgb-screen:" + kind)
            camp.nontrivial.add(("nonrgb", i, tol))
            why = None
            if done and Fraction(s2, 768) > Fraction(tol) ** 2 and rms - tol > 1e-9:
                why = (f"the wait completed at once although the image read as colours is RMS {rms!r} away from the region "
                       f"(tolerance {tol!r}) and its own {len(Image.open(png).histogram())}-bin histogram cannot be compared with the region's 768 bins")
            elif done and reqs:
                why = f"the wait completed at once but {len(reqs)} request(s) were written"
            elif not done and reqs != [("FbUpdateRequest", 1, 0, 0, 64, 64)]:
                why = f"a miss must send exactly one incremental whole-desktop request, got {reqs}"
            if why:
                camp.oracle_failures.append({"kind": "oracle", "property": "C07",
                                             "case": {"non_rgb": mode, "screen": rows, "x": 0, "y": 0, "maxrms": float(tol).hex()},
                                             "what": f"awaited image of mode {mode} ({w}x{h}), screen '{kind}': {why}"})
                return


def fbu_raw(x, y, rows):
    import struct
    h = len(rows)
    w = len(rows[0])
    px = b"".join(bytes([p[0], p[1], p[2], 0]) for r in rows for p in r)
    return b"\0\0\0\x01" + struct.pack("!HHHHi", x, y, w, h, 0) + px


def polling(camp, rng, tmp, n):
    """histories: the wait is armed, then updates arrive; the first one that makes the region match completes it"""
    import struct
    for i in range(n):
        W, H = rng.randrange(2, 9), rng.randrange(2, 7)
        target = [[(rng.randrange(256), rng.randrange(256), rng.randrange(256)) for _ in range(W)] for _ in range(H)]
        iw, ih = rng.randrange(1, W + 1), rng.randrange(1, H + 1)
        ox, oy = rng.randrange(0, W - iw + 1), rng.randrange(0, H - ih + 1)
        aw = [list(r[ox:ox + iw]) for r in target[oy:oy + ih]]
        png = os.path.join(tmp, "p.png")
        img_from_rows(aw).save(png)
        nupd = rng.randrange(0, 13)
        kmatch = rng.choice([None] + list(range(nupd))) if nupd else None
        # a real protocol session: handshake, then expectRegion, then updates
        c = vclient.VNCDoToolClient()
        c.factory = vclient.VNCDoToolFactory()
        c.factory.nocursor = True            # cursor shape updates leave the screen alone (C12)
        c.makeConnection(StringTransport())
        hs = b"RFB 003.008\n\x01\x01\0\0\0\0" + struct.pack("!HH16sI", W, H, bytes([32, 24, 0, 1, 0, 255, 0, 255, 0, 255, 0, 8, 16, 0, 0, 0]), 0)
        c.dataReceived(hs)
        start_with_screen = rng.random() < 0.5
        cur = None
        if start_with_screen:
            cur = [[(p[0] ^ 0x55, p[1], p[2]) for p in r] for r in target]
            c.dataReceived(fbu_raw(0, 0, cur))
        c.transport.clear()
        tol = rng.choice([0.0, 0.0, 0.3])
        box = (ox, oy, ox + iw, oy + ih)

        def matches(scr):
            if scr is None:
                return False
            return Fraction(exact_rms_sq(scr, (W, H), box, aw), 768) <= Fraction(tol) ** 2
        d = c.expectRegion(png, ox, oy, tol)
        completed = []
        if isinstance(d, Deferred):
            d.addCallback(lambda r: completed.append(True))
        else:
            completed.append(True)
        first = clientops.parse_c2s(c.transport.value())
        camp.evaluations += 1
        camp.count("polling-histories")
        camp.nontrivial.add(("poll", i))
        why = None
        waiting = not matches(cur)
        want_first = [("FbUpdateRequest", 1 if start_with_screen else 0, 0, 0, W, H)] if waiting else []
        if bool(completed) != (not waiting) or first != want_first:
            why = f"call: completed={bool(completed)}, requests {first}; expected completed={not waiting}, requests {want_first}"
        pending_tail = b""
        for k in range(nupd):
            if why:
                break
            c.transport.clear()
            kind = rng.choice(["raw", "raw", "raw", "cursor-only", "desktopsize-only", "cursor+lastrect"]) if cur is not None else "raw"
            if kmatch is not None and k == kmatch:
                kind = "raw"
            camp.count("polling-update:" + kind)
            if kind == "raw":
                if kmatch is not None and k >= kmatch:
                    upd = target
                else:
                    upd = [[(rng.randrange(256), rng.randrange(256), 7) for _ in range(W)] for _ in range(H)]
                cur = upd
                # split the update in two rectangles: only the commit may trigger the comparison
                half = max(1, H // 2)
                if H > half:
                    msg = b"\0\0\0\x02" + fbu_raw(0, 0, upd[:half])[4:] + fbu_raw(0, half, upd[half:])[4:]
                else:
                    msg = fbu_raw(0, 0, upd)
            elif kind == "cursor-only":
                # a 2x2 cursor shape (pseudo-encoding -239): pixels + 1-bit mask; the screen is unchanged (nocursor)
                msg = b"\0\0\0\x01" + struct.pack("!HHHHi", 0, 0, 2, 2, -239) + bytes(16) + bytes([0xC0, 0xC0])
            elif kind == "desktopsize-only":
                msg = b"\0\0\0\x01" + struct.pack("!HHHHi", 0, 0, W, H, -223)
            else:
                msg = (b"\0\0\xff\xff" + struct.pack("!HHHHi", 0, 0, 2, 2, -239) + bytes(16) + bytes([0xC0, 0xC0])
                       + struct.pack("!HHHHi", 0, 0, 0, 0, -224))
            # the transport may deliver the update glued to whatever the server sent next (a Bell, the head of a cut text)
            glue = rng.choice([b"", b"", b"\x02", b"\x03\0\0", b"\x02\x02"])
            if pending_tail:
                msg = pending_tail + msg
                pending_tail = b""
            if glue == b"\x03\0\0":
                pending_tail = b"\0" + struct.pack("!I", 2) + b"hi"      # the rest of that ServerCutText arrives with the next chunk
            camp.count("polling-glued-chunks", 1 if glue else 0)
            c.dataReceived(msg + glue)
            reqs = clientops.parse_c2s(c.transport.value())
            now = bool(completed)
            if not waiting:
                if reqs:
                    why = f"update #{k} after completion: requests {reqs} were still written"
            elif matches(cur):
                waiting = False
                camp.count("polling-completions-at-update-%s" % (k if k < 4 else ">3"))
                if not now or reqs:
                    why = f"update #{k} makes the region match: completed={now}, requests {reqs}"
            else:
                camp.count("polling-misses")
                if now or reqs != [("FbUpdateRequest", 1, 0, 0, W, H)]:
                    why = (f"update #{k} does not match: completed={now}, requests {reqs}; exactly one incremental request and "
                           f"no completion expected")
        if why:
            camp.oracle_failures.append({"kind": "oracle", "property": "C07", "case": {"polling": i, "updates": nupd, "first_match": kmatch},
                                         "what": f"polling history {i} ({nupd} updates, first match {kmatch}, tolerance {tol}): {why}"})
            return


def finding_empty_update(camp, tmp):
    import struct
    c = vclient.VNCDoToolClient()
    c.factory = vclient.VNCDoToolFactory()
    c.makeConnection(StringTransport())
    c.dataReceived(b"RFB 003.008\n\x01\x01\0\0\0\0" + struct.pack("!HH16sI", 2, 2, bytes([32, 24, 0, 1, 0, 255, 0, 255, 0, 255, 0, 8, 16, 0, 0, 0]), 0))
    c.dataReceived(fbu_raw(0, 0, [[(1, 1, 1), (2, 2, 2)], [(3, 3, 3), (4, 4, 4)]]))
    png = os.path.join(tmp, "e.png")
    img_from_rows([[(9, 9, 9)]]).save(png)
    d = c.expectRegion(png, 0, 0, 0)
    c.transport.clear()
    c.dataReceived(b"\0\0\0\0")            # FramebufferUpdate with zero rectangles
    if clientops.parse_c2s(c.transport.value()) == []:
        camp.known_hits.append("a FramebufferUpdate with no rectangle at all (count 0) does not fire commitUpdate: the pending "
                               "expect sends no further request and stalls until an unsolicited update arrives "
                               "(finding c07-empty-update)")


def replay(payload):
    case = payload["case"]
    if "screen" not in case or "non_rgb" in case or "two_connections" in case:
        return True, "replay: polling / no-screen / non-RGB reference case; re-run ./check C07"
    tmp = tempfile.mkdtemp(prefix="c07-")
    try:
        rows = [[tuple(p) for p in r] for r in case["screen"]]
        aw = [[tuple(p) for p in r] for r in case["awaited"]]
        png = os.path.join(tmp, "aw.png")
        img_from_rows(aw).save(png)
        c = new_client()
        c.screen = img_from_rows(rows)
        m = float.fromhex(case["maxrms"])
        done, reqs, d = real_expect(c, png, case["x"], case["y"], m, case["region"])
        iw, ih = len(aw[0]), len(aw)
        box = (case["x"], case["y"], case["x"] + iw, case["y"] + ih) if case["region"] else (0, 0, iw, ih)
        s = exact_rms_sq(rows, (len(rows[0]), len(rows)), box, aw)
        want = Fraction(s, 768) <= Fraction(m) ** 2
        return done == want, f"replay: completed={done}, exact arithmetic says {want} (sum {s}, tolerance {m!r})"
    finally:
        shutil.rmtree(tmp, ignore_errors=True)
