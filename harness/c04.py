"""C04 - key commands put exactly the intended press/release events on the wire."""
import contextlib
import io
import logging
import os
import random
import shutil
import struct
import tempfile

import clientops
import common
import x11

TRUSTED_BASE = ["Spec/X11.v and harness/x11.py: X11 keysym values written by hand from keysymdef.h",
                "Spec/C2S.v: RFC 6143 §7.5 parser", "str.isupper() is an input of the model (Unicode tables not modelled)"]
ASSUMPTIONS = ["chords follow the documented syntax: '-'-joined names of the key table or single characters other than '-'",
               "forced caps is specified for single characters"]


def run(tier, seed, model):
    camp = common.Campaign()
    rng = random.Random(seed * 7919 + 4)
    n = 500 if tier == "quick" else 10000
    camp.rule = ("every documented key name once (press, down, up; forced caps off and on), then random histories of key "
                 "operations (names, ASCII/Latin-1/BMP/astral characters, chords of 2..5 tokens, ~8% outside the "
                 "documented syntax) on the real VNCDoToolClient; KeyEvent bytes parsed independently and compared with "
                 "the X11 table / code points, and with the extracted Coq model; non-trivial = at least one in-domain key "
                 "operation; distinct by history")
    # exhaustive pass over the documented names
    cases = []
    for fc in (False, True):
        ops = []
        for name in sorted(x11.DOCUMENTED):
            ops += [("keyPress", name), ("keyDown", name), ("keyUp", name)]
        cases.append((8, 8, fc, False, ops))
    answers = model.call_many([clientops.model_request(*c) for c in cases]) if model else None
    for ci, case in enumerate(cases):
        real, final = clientops.run_real(*case)
        spec = clientops.Spec(8, 8, False, case[2])
        camp.evaluations += 1
        camp.nontrivial.add(repr(case))
        for oi, (op, got) in enumerate(zip(case[4], real)):
            exp = spec.expected(op)
            parsed = clientops.parse_c2s(got) if got is not None else None
            if parsed != exp:
                camp.oracle_failures.append({"kind": "oracle", "property": "C04", "case": {
                    "width": 8, "height": 8, "force_caps": case[2], "has_screen": False, "ops": [list(op)]},
                    "what": f"{op!r}: expected {exp!r}, client wrote {parsed!r}"})
                break
        if answers is not None:
            m_bytes = [bytes(w[0]) if w else None for w in answers[ci][1]]
            if m_bytes != real:
                idx = next(i for i, (a, b) in enumerate(zip(m_bytes, real)) if a != b)
                camp.model_mismatches.append({"property": "C04", "case": {"ops": [list(case[4][idx])], "force_caps": case[2]},
                                              "what": f"{case[4][idx]!r}: model {m_bytes[idx]} vs client {real[idx]}"})
    camp.count("documented-names", len(x11.DOCUMENTED))
    clientops.run_campaign(camp, model, rng, n, ["keyPress", "keyDown", "keyUp"], 30, "C04")
    # the log level is not an input of the property: the same operations at DEBUG level must write the same bytes
    with debug_logging():
        for ci, case in enumerate(cases):
            real, _final = clientops.run_real(*case)
            base, _ = None, None
            camp.evaluations += 1
            camp.count("debug-logging:documented-names")
            spec = clientops.Spec(8, 8, False, case[2])
            for op, got in zip(case[4], real):
                exp = spec.expected(op)
                parsed = clientops.parse_c2s(got) if got is not None else None
                if parsed != exp:
                    camp.oracle_failures.append({"kind": "oracle", "property": "C04", "case": {
                        "width": 8, "height": 8, "force_caps": case[2], "has_screen": False, "ops": [list(op)], "debug_logging": True},
                        "what": f"with DEBUG logging enabled, {op!r}: expected {exp!r}, client wrote {parsed!r}"})
                    break
    cli_typing(camp, rng, 60 if tier == "quick" else 1500)
    return camp


@contextlib.contextmanager
def debug_logging():
    """vncdo -vv: every vncdotool logger at DEBUG with a handler that really formats the records"""
    names = ["", "vncdotool", "vncdotool.client", "vncdotool.rfb", "vncdotool.command", "twisted"]
    saved = [(logging.getLogger(n), logging.getLogger(n).level) for n in names]
    h = logging.StreamHandler(io.StringIO())
    h.setLevel(logging.DEBUG)
    root = logging.getLogger()
    root.addHandler(h)
    try:
        for lg, _ in saved:
            lg.setLevel(logging.DEBUG)
        yield
    finally:
        root.removeHandler(h)
        for lg, lv in saved:
            lg.setLevel(lv)


TEXT_ALPHABET = list("abcxyzABCXYZ0189 !@#~_-+=/?.,;:'\"<>[]{}|\\`$%^&*()") + ["\u00e9", "\u00df", "\u20ac", "\u4e2d", "\U0001f600",
                 # characters a Unicode normalisation or case mapping would change: every character is typed as it stands
                 "e\u0301", "\u0308", "\u1100\u1161", "\ufb01", "\u212b", "\u2126", "\u0130", "\u00b5"]


def run_cli(toks, delay, force_caps):
    """the real build_command_list chain on a VNCDoCLIClient over a string transport, virtual clock -> bytes written by the chain"""
    from twisted.internet.defer import Deferred
    from twisted.internet.task import Clock
    from twisted.internet.testing import StringTransport
    from vncdotool import client as vclient
    from vncdotool import command
    clock = Clock()
    vclient.reactor = clock
    command.reactor = clock
    f = command.VNCDoCLIFactory()
    f.force_caps = force_caps
    f.deferred = Deferred()
    tr = StringTransport()
    f.deferred.addCallback(lambda c: (tr.clear(), c)[1])       # drop the connection set-up
    command.build_command_list(f, list(toks), delay, 1.0, False)
    done, failed = [], []
    f.deferred.addCallbacks(lambda r: done.append(1), lambda fl: failed.append(fl))
    c = command.VNCDoCLIClient()
    c.factory = f
    c.makeConnection(tr)
    hs = b"RFB 003.008\n\x01\x01\0\0\0\0" + struct.pack("!HH16sI", 8, 8, bytes([32, 24, 0, 1, 0, 255, 0, 255, 0, 255, 0, 8, 16, 0, 0, 0]), 0)
    c.dataReceived(hs)
    guard = 0
    while not done and not failed and guard < 100000:
        guard += 1
        calls = clock.getDelayedCalls()
        if not calls:
            break
        clock.advance(max(0.0, min(dc.getTime() for dc in calls) - clock.seconds()))
    return tr.value(), bool(done), failed


def cli_typing(camp, rng, n):
    """type / typefile / key / keydown / keyup through the command line: several typing commands in one run, with and without
    --delay, with and without forced caps, at default and DEBUG log level"""
    tmp = tempfile.mkdtemp(prefix="c04-")
    try:
        for i in range(n):
            toks, exp_ops = [], []
            for j in range(rng.randrange(1, 5)):
                r = rng.random()
                if r < 0.45:
                    text = "".join(rng.choice(TEXT_ALPHABET) for _ in range(rng.randrange(1, 7)))
                    toks += ["type", text]
                    exp_ops += [("keyPress", ch) for ch in text]
                elif r < 0.65:
                    # line ends are LF / CR LF (and TAB is a key): every other control or separator character is typed as itself
                    text = "".join(rng.choice(TEXT_ALPHABET + ["\n", "\t", "\r\n", "\x0b", "\x0c", "\x1c", "\x1d", "\x1e", "\x85", "\u2028", "\u2029"])
                                   for _ in range(rng.randrange(0, 7)))
                    path = os.path.join(tmp, "t%d_%d.txt" % (i % 8, j))
                    with open(path, "w", encoding="utf-8", newline="") as fh:
                        fh.write(text)
                    toks += ["typefile", path]
                    with open(path) as fh:          # what open() in text mode hands to the command (newline translation)
                        content = fh.read()
                    for ch in content:
                        if ch == "\r":
                            continue
                        exp_ops.append(("keyPress", {"\n": "enter", "\t": "tab"}.get(ch, ch)))
                else:
                    k = rng.choice(["a", "Q", "enter", "tab", "ctrl-c", "ctrl-alt-del", "shift-x", "f5", "-", "+"])
                    cmd = rng.choice(["key", "key", "keydown", "keyup"])
                    toks += [cmd, k]
                    exp_ops.append(({"key": "keyPress", "keydown": "keyDown", "keyup": "keyUp"}[cmd], k))
            delay = rng.choice([0, 0, 0.02, 0.15])
            fc = rng.random() < 0.3
            dbg = rng.random() < 0.3
            spec = clientops.Spec(8, 8, False, fc)
            exp = []
            in_domain = True
            for op in exp_ops:
                e = spec.expected(op)
                if e is None:
                    in_domain = False
                    break
                exp += e
            if not in_domain:
                camp.count("cli-typing:outside-domain")
                continue
            camp.evaluations += 1
            camp.count("cli-typing:delay" if delay else "cli-typing:no-delay")
            camp.count("cli-typing:commands", len(toks) // 2)
            camp.nontrivial.add(("cli", tuple(toks), delay, fc, dbg))
            try:
                with (debug_logging() if dbg else contextlib.nullcontext()):
                    data, done, failed = run_cli(toks, delay, fc)
                got = clientops.parse_c2s(data)
                why = None
                if failed:
                    why = f"the command chain failed: {failed[0].value!r}"
                elif not done:
                    why = "the command chain did not finish"
                elif got != exp:
                    k = next((a for a, (x, y) in enumerate(zip(got or [], exp)) if x != y), min(len(got or []), len(exp)))
                    why = (f"{len(exp)} key events expected, {len(got or [])} written; first difference at #{k}: "
                           f"expected {exp[k] if k < len(exp) else None}, wrote {(got or [None])[k] if got and k < len(got) else None}")
            except Exception as e:  # noqa: BLE001
                why = f"raised {type(e).__name__}: {e}"
            if why:
                camp.oracle_failures.append({"kind": "oracle", "property": "C04",
                                             "case": {"cli": toks, "delay": delay, "force_caps": fc, "debug_logging": dbg},
                                             "what": f"vncdo {'-vv ' if dbg else ''}{'--force-caps ' if fc else ''}--delay {int(delay * 1000)} "
                                                     f"{' '.join(repr(t) for t in toks)[:160]}: {why}"})
                return
    finally:
        shutil.rmtree(tmp, ignore_errors=True)


def replay(payload):
    case = payload["case"]
    if "cli" in case:
        toks = case["cli"]
        if "typefile" in toks:
            return True, "replay: the case names a temporary file; re-run ./check C04"
        spec = clientops.Spec(8, 8, False, case["force_caps"])
        exp = []
        names = {"key": "keyPress", "keydown": "keyDown", "keyup": "keyUp"}
        for cmd, arg in zip(toks[0::2], toks[1::2]):
            for op in ([("keyPress", ch) for ch in arg] if cmd == "type" else [(names[cmd], arg)]):
                exp += spec.expected(op) or []
        with (debug_logging() if case.get("debug_logging") else contextlib.nullcontext()):
            data, done, failed = run_cli(toks, case["delay"], case["force_caps"])
        ok = done and not failed and clientops.parse_c2s(data) == exp
        return ok, "replay: " + ("the key events are the expected ones" if ok else "still differs")
    if case.get("debug_logging"):
        with debug_logging():
            return clientops.replay_case(case, "C04")
    return clientops.replay_case(case, "C04")
