"""C04 - key commands put exactly the intended press/release events on the wire."""
import random

import clientops
import common
import x11

TRUSTED_BASE = ["Spec/X11.v and harness/x11.py: X11 keysym values written by hand from keysymdef.h",
                "Spec/C2S.v: RFC 6143 §7.5 parser", "str.isupper() is an input of the model (Unicode tables not modelled)"]
ASSUMPTIONS = ["chords follow the documented syntax: '-'-joined names of the key table or single characters other than '-'",
               "forced caps is specified for single characters"]


def run(tier, seed, model):
    camp = common.Campaign()
    rng = random.Random(seed * 7919 + 4)
    n = 500 if tier == "quick" else 10000
    camp.rule = ("every documented key name once (press, down, up; forced caps off and on), then random histories of key "
                 "operations (names, ASCII/Latin-1/BMP/astral characters, chords of 2..5 tokens, ~8% outside the "
                 "documented syntax) on the real VNCDoToolClient; KeyEvent bytes parsed independently and compared with "
                 "the X11 table / code points, and with the extracted Coq model; non-trivial = at least one in-domain key "
                 "operation; distinct by history")
    # exhaustive pass over the documented names
    cases = []
    for fc in (False, True):
        ops = []
        for name in sorted(x11.DOCUMENTED):
            ops += [("keyPress", name), ("keyDown", name), ("keyUp", name)]
        cases.append((8, 8, fc, False, ops))
    answers = model.call_many([clientops.model_request(*c) for c in cases]) if model else None
    for ci, case in enumerate(cases):
        real, final = clientops.run_real(*case)
        spec = clientops.Spec(8, 8, False, case[2])
        camp.evaluations += 1
        camp.nontrivial.add(repr(case))
        for oi, (op, got) in enumerate(zip(case[4], real)):
            exp = spec.expected(op)
            parsed = clientops.parse_c2s(got) if got is not None else None
            if parsed != exp:
                camp.oracle_failures.append({"kind": "oracle", "property": "C04", "case": {
                    "width": 8, "height": 8, "force_caps": case[2], "has_screen": False, "ops": [list(op)]},
                    "what": f"{op!r}: expected {exp!r}, client wrote {parsed!r}"})
                break
        if answers is not None:
            m_bytes = [bytes(w[0]) if w else None for w in answers[ci][1]]
            if m_bytes != real:
                idx = next(i for i, (a, b) in enumerate(zip(m_bytes, real)) if a != b)
                camp.model_mismatches.append({"property": "C04", "case": {"ops": [list(case[4][idx])], "force_caps": case[2]},
                                              "what": f"{case[4][idx]!r}: model {m_bytes[idx]} vs client {real[idx]}"})
    camp.count("documented-names", len(x11.DOCUMENTED))
    clientops.run_campaign(camp, model, rng, n, ["keyPress", "keyDown", "keyUp"], 30, "C04")
    return camp


def replay(payload):
    return clientops.replay_case(payload["case"], "C04")
