"""Run the real command-line entry point vncdotool.command.vncdo() up to the point where the reactor would start:
the option parser, the environment, and the code that copies options onto the factory are the real ones; build_tool is
replaced by a function that hands back a real VNCDoCLIFactory without connecting, and the reactor by a recorder."""
from __future__ import annotations

import io
import os
import sys

import common  # noqa: F401

from vncdotool import command


class _Reactor:
    def __init__(self):
        self.later = []
        self.exit_status = 0
        self.running = False

    def callLater(self, delay, f, *a, **kw):
        self.later.append((delay, f, a))

    def run(self, *a, **kw):
        pass

    def stop(self):
        pass


def run_vncdo(argv, env=None):
    """-> dict(options, args, factory, exit, reactor) ; exit is the SystemExit code (None when vncdo() returned)"""
    got = {"options": None, "args": None, "factory": None, "exit": None, "raised": None}

    def fake_build_tool(options, args):
        f = command.VNCDoCLIFactory()
        got.update(options=options, args=list(args), factory=f)
        return f
    saved = (command.build_tool, command.setup_logging, command.reactor, sys.argv, sys.stdout, sys.stderr, dict(os.environ))
    command.build_tool = fake_build_tool
    command.setup_logging = lambda options: None
    command.reactor = got["reactor"] = _Reactor()
    sys.argv = ["vncdo"] + list(argv)
    sys.stdout = sys.stderr = io.StringIO()
    for k in [k for k in os.environ if k.startswith("VNCDOTOOL_")]:
        del os.environ[k]
    os.environ.update(env or {})
    try:
        command.vncdo()
    except SystemExit as e:
        got["exit"] = e.code
    except Exception as e:  # noqa: BLE001
        got["raised"] = e
    finally:
        command.build_tool, command.setup_logging, command.reactor, sys.argv, sys.stdout, sys.stderr = saved[:6]
        os.environ.clear()
        os.environ.update(saved[6])
    return got
