"""Library operations of VNCDoToolClient: generator, real-client runner, model encoding and
the specification oracle (independent RFC 6143 §7.5 parser + spec state). Shared by C04/C05/C19."""
from __future__ import annotations

import os
import random
import struct
import tempfile

import common  # noqa: F401  (sets sys.path)
import x11

from twisted.internet.task import Clock
from twisted.internet.testing import StringTransport

import vncdotool.client as vclient
from vncdotool import rfb

# ------------------------------------------------------------------ independent parser (oracle)


def parse_c2s(data: bytes):
    """RFC 6143 §7.5. -> list of messages or None if the stream is not a sequence of whole messages."""
    out = []
    i = 0
    n = len(data)
    while i < n:
        t = data[i]
        if t == 0:
            if i + 20 > n:
                return None
            out.append(("SetPixelFormat", bytes(data[i + 4:i + 20])))
            i += 20
        elif t == 2:
            if i + 4 > n:
                return None
            cnt = int.from_bytes(data[i + 2:i + 4], "big")
            if i + 4 + 4 * cnt > n:
                return None
            encs = [int.from_bytes(data[i + 4 + 4 * k:i + 8 + 4 * k], "big", signed=True) for k in range(cnt)]
            out.append(("SetEncodings", encs))
            i += 4 + 4 * cnt
        elif t == 3:
            if i + 10 > n:
                return None
            out.append(("FbUpdateRequest", data[i + 1]) + tuple(
                int.from_bytes(data[i + 2 + 2 * k:i + 4 + 2 * k], "big") for k in range(4)))
            i += 10
        elif t == 4:
            if i + 8 > n:
                return None
            out.append(("KeyEvent", data[i + 1], int.from_bytes(data[i + 4:i + 8], "big")))
            i += 8
        elif t == 5:
            if i + 6 > n:
                return None
            out.append(("PointerEvent", data[i + 1], int.from_bytes(data[i + 2:i + 4], "big"),
                        int.from_bytes(data[i + 4:i + 6], "big")))
            i += 6
        elif t == 6:
            if i + 8 > n:
                return None
            ln = int.from_bytes(data[i + 4:i + 8], "big")
            if i + 8 + ln > n:
                return None
            out.append(("ClientCutText", bytes(data[i + 8:i + 8 + ln])))
            i += 8 + ln
        else:
            return None
    return out


def model_msgs_to_py(ms):
    """sexp from the model's parse_c2s -> same tuples as parse_c2s above"""
    out = []
    for m in ms:
        t = m[0]
        if t == 0:
            out.append(("SetPixelFormat", bytes(m[1])))
        elif t == 2:
            out.append(("SetEncodings", list(m[1])))
        elif t == 3:
            out.append(("FbUpdateRequest",) + tuple(m[1:6]))
        elif t == 4:
            out.append(("KeyEvent", m[1], m[2]))
        elif t == 5:
            out.append(("PointerEvent", m[1], m[2], m[3]))
        elif t == 6:
            out.append(("ClientCutText", bytes(m[1])))
    return out


# ------------------------------------------------------------------ spec state (the property's RHS)

class Spec:
    """Abstract state of C04/C05/C19: pointer position, set of held buttons, announced size."""

    def __init__(self, width, height, has_screen=False, force_caps=False):
        self.pos = (0, 0)
        self.held = set()
        self.width, self.height = width, height
        self.has_screen = has_screen
        self.force_caps = force_caps

    def mask(self):
        return sum(1 << (b - 1) for b in self.held)

    def key_tokens(self, key: str):
        """documented chord syntax -> keysyms, or None when outside the documented syntax"""
        if len(key) == 1:
            toks = [key]
        else:
            toks = key.split("-")
        syms = []
        for t in toks:
            if t in x11.DOCUMENTED:
                syms.append(x11.DOCUMENTED[t][1])
            elif len(t) == 1:
                syms.append(ord(t))
            else:
                return None
        return syms

    def expected(self, op):
        """-> list of expected messages, or None when the op is outside the property's domain
        (out-of-range argument, undocumented key syntax)."""
        k = op[0]
        if k.startswith("srv"):
            return []
        if k in ("keyPress", "keyDown", "keyUp"):
            key = op[1]
            syms = self.key_tokens(key)
            if syms is None:
                return None
            if self.force_caps and len(key) == 1 and (key.isupper() or key in vclient.VNCDoToolClient.SPECIAL_KEYS_US):
                syms = [0xFFE1] + syms
            elif self.force_caps and len(key) != 1:
                # forced caps is specified for single characters only
                if key.isupper() or key in vclient.VNCDoToolClient.SPECIAL_KEYS_US:
                    return None
            if k == "keyPress":
                return [("KeyEvent", 1, s) for s in syms] + [("KeyEvent", 0, s) for s in reversed(syms)]
            if k == "keyDown":
                return [("KeyEvent", 1, s) for s in syms]
            return [("KeyEvent", 0, s) for s in syms]
        if k == "mouseMove":
            _, x, y = op
            if not (0 <= x <= 65535 and 0 <= y <= 65535):
                return None
            self.pos = (x, y)
            return [("PointerEvent", self.mask(), x, y)]
        if k in ("mouseDown", "mouseUp", "mousePress"):
            b = op[1]
            if not 1 <= b <= 8:
                return None
            out = []
            if k in ("mouseDown", "mousePress"):
                self.held.add(b)
                out.append(("PointerEvent", self.mask(), *self.pos))
            if k in ("mouseUp", "mousePress"):
                self.held.discard(b)
                out.append(("PointerEvent", self.mask(), *self.pos))
            return out
        if k == "mouseDrag":
            _, x, y, step = op
            if not (0 <= x <= 65535 and 0 <= y <= 65535 and step >= 1):
                return None
            ox, oy = self.pos
            dx, dy = x - ox, y - oy
            dmax = max(abs(dx), abs(dy))
            pts = []
            s = 0
            while s < dmax:
                # floor of the exact point on the segment, per axis
                pts.append((ox + (dx * s) // dmax, oy + (dy * s) // dmax))
                s += step
            pts.append((x, y))
            self.pos = (x, y)
            return [("PointerEvent", self.mask(), px, py) for px, py in pts]
        if k == "paste":
            try:
                data = op[1].encode("iso-8859-1")
            except UnicodeEncodeError:
                return None
            return [("ClientCutText", data)]
        if k in ("refreshScreen", "captureScreen"):
            return [("FbUpdateRequest", int(bool(op[1])), 0, 0, self.width, self.height)]
        if k == "expectScreen":
            return [("FbUpdateRequest", int(self.has_screen), 0, 0, self.width, self.height)]
        if k == "fbur":
            _, x, y, w, h, inc = op
            w = self.width - x if w is None else w
            h = self.height - y if h is None else h
            if not all(0 <= v <= 65535 for v in (x, y, w, h)):
                return None
            return [("FbUpdateRequest", int(bool(inc)), x, y, w, h)]
        if k == "setPixelFormat":
            pf = op[1]
            if not (all(0 <= pf[i] <= 255 for i in (0, 1, 7, 8, 9)) and all(0 <= pf[i] <= 65535 for i in (4, 5, 6))):
                return None
            b = bytes([pf[0], pf[1], 1 if pf[2] else 0, 1 if pf[3] else 0]) + struct.pack(">HHH", *pf[4:7]) \
                + bytes(pf[7:10]) + b"\0\0\0"
            return [("SetPixelFormat", b)]
        if k == "setEncodings":
            encs = op[1]
            if len(encs) > 65535 or not all(-2**31 <= e < 2**31 for e in encs):
                return None
            return [("SetEncodings", list(encs))]
        raise ValueError(k)


# ------------------------------------------------------------------ model encoding

def op_to_sx(op):
    k = op[0]
    if k == "keyPress":
        return [0, op[1].isupper(), op[1]]
    if k == "keyDown":
        return [1, op[1].isupper(), op[1]]
    if k == "keyUp":
        return [2, op[1].isupper(), op[1]]
    if k == "mouseMove":
        return [3, op[1], op[2]]
    if k == "mouseDown":
        return [4, op[1]]
    if k == "mouseUp":
        return [5, op[1]]
    if k == "mousePress":
        return [6, op[1]]
    if k == "mouseDrag":
        return [7, op[1], op[2], op[3]]
    if k == "paste":
        return [8, op[1]]
    if k in ("refreshScreen", "captureScreen"):
        return [9, int(bool(op[1]))]
    if k == "expectScreen":
        return [10]
    if k == "fbur":
        _, x, y, w, h, inc = op
        return [11, x, y, [] if w is None else [w], [] if h is None else [h], int(bool(inc))]
    if k == "setPixelFormat":
        return [12, [int(v) for v in op[1]]]
    if k == "setEncodings":
        return [13, list(op[1])]
    raise ValueError(k)


def model_request(width, height, force_caps, has_screen, ops):
    return ("client_ops", [[0, 0, 0], width, height, force_caps, has_screen, [op_to_sx(o) for o in ops]])


# ------------------------------------------------------------------ the real client

_PNG = None


def tiny_png():
    global _PNG
    if _PNG is None:
        from PIL import Image
        fd, p = tempfile.mkstemp(suffix=".png", prefix="verif-")
        os.close(fd)
        Image.new("RGB", (2, 2), (1, 2, 3)).save(p)
        _PNG = p
    return _PNG


def run_real(width, height, force_caps, has_screen, ops):
    """-> (list of per-op bytes or None when the op raised, final (x, y, buttons))"""
    clock = Clock()
    vclient.reactor = clock
    f = vclient.VNCDoToolFactory()
    f.force_caps = force_caps
    c = vclient.VNCDoToolClient()
    c.factory = f
    tr = StringTransport()
    c.makeConnection(tr)
    c.width, c.height = width, height
    if has_screen:
        from PIL import Image
        c.screen = Image.new("RGB", (max(1, min(width, 4)), max(1, min(height, 4))))
    out = []
    for op in ops:
        tr.clear()
        k = op[0]
        try:
            if k in ("keyPress", "keyDown", "keyUp", "mouseMove", "mouseDown", "mouseUp", "mousePress"):
                getattr(c, k)(*op[1:])
            elif k == "mouseDrag":
                d = c.mouseDrag(op[1], op[2], op[3])
                fired = []
                failed = []
                d.addCallbacks(fired.append, failed.append)
                guard = 0
                while not fired and not failed and guard < 200000:
                    clock.advance(0.2)
                    guard += 1
                if failed:
                    raise failed[0].value
                assert fired
            elif k == "paste":
                c.paste(op[1])
            elif k == "srvSize":                     # what the server may do between two operations (writes nothing)
                c.updateDesktopSize(op[1], op[2])
            elif k == "srvRect":
                c.updateRectangle(op[1], op[2], op[3], op[4], bytes(op[3] * op[4] * 4))
                c.commitUpdate([])
            elif k == "srvCursor":
                c.updateCursor(op[1], op[2], op[3], op[4], bytes(op[3] * op[4] * 4), b"\xff" * (((op[3] + 7) // 8) * op[4]))
            elif k == "srvBell":
                c.bell()
            elif k == "refreshScreen":
                c.refreshScreen(bool(op[1]))
                c.deferred = None
            elif k == "captureScreen":
                import io
                c.captureScreen(io.BytesIO(), bool(op[1]), format="png")
                c.deferred = None
            elif k == "expectScreen":
                d = c.expectScreen(tiny_png(), 0)
                c.deferred = None
            elif k == "fbur":
                _, x, y, w, h, inc = op
                c.framebufferUpdateRequest(x, y, w, h, bool(inc))
            elif k == "setPixelFormat":
                pf = op[1]
                keep = c.pixel_format
                c.setPixelFormat(rfb.PixelFormat(pf[0], pf[1], bool(pf[2]), bool(pf[3]), *pf[4:]))
                c.pixel_format = keep
            elif k == "setEncodings":
                c.setEncodings(list(op[1]))
            else:
                raise ValueError(k)
            out.append(tr.value())
        except Exception:  # the call raised: whatever was written before is discarded from the comparison
            out.append(None)
    try:
        final = (c.x, c.y, c.buttons)
    except Exception:  # noqa: BLE001  (the bookkeeping attributes are the implementation's business; the wire is judged)
        final = (None, None, None)
    return out, final


# ------------------------------------------------------------------ generators

KEYNAMES = sorted(x11.DOCUMENTED)
CHARS = "aZ09 ~!@#$%^&*()_+{}|:\"<>?-=[];',./`\\\t\néÿā€\U0001f600"


def gen_key(rng: random.Random) -> str:
    r = rng.random()
    if r < 0.25:
        return rng.choice(KEYNAMES)
    if r < 0.5:
        return rng.choice(CHARS)
    if r < 0.6:
        return chr(rng.choice([rng.randrange(32, 127), rng.randrange(0xA0, 0x3000), rng.randrange(0x10000, 0x10FFFF)]))
    if r < 0.92:
        n = rng.randrange(2, 6)
        toks = [rng.choice(KEYNAMES) if rng.random() < 0.7 else rng.choice("abcXYZ19!#") for _ in range(n)]
        return "-".join(toks)
    # outside the documented syntax
    return rng.choice(["", "--", "a-", "-a", "nosuchkey", "ctrl-nosuch", "F1", "AB", "shift-", "!@"])


def gen_coord(rng):
    return rng.choice([0, 1, 2, 255, 256, 65535, rng.randrange(65536), rng.randrange(0, 64)])


def gen_op(rng: random.Random, kinds, near=None):
    k = rng.choice(kinds)
    if k in ("keyPress", "keyDown", "keyUp"):
        return (k, gen_key(rng))
    if k == "mouseMove":
        return (k, gen_coord(rng), gen_coord(rng))
    if k in ("mouseDown", "mouseUp", "mousePress"):
        return (k, rng.choice([1, 1, 2, 3, 4, 5, 6, 7, 8, 8]) if rng.random() < 0.97 else rng.choice([0, 9, -1, 40]))
    if k == "mouseDrag":
        if near is not None and rng.random() < 0.8:
            x = min(65535, max(0, near[0] + rng.choice([0, 0, 1, -1, 5, -7, 40, -40, 130])))
            y = min(65535, max(0, near[1] + rng.choice([0, 0, 1, -1, 3, -9, 25, -60, 200])))
        else:
            x, y = rng.randrange(0, 400), rng.randrange(0, 400)
        step = rng.choice([1, 1, 1, 2, 3, 7, 50, 1000]) if rng.random() < 0.95 else rng.choice([0, -1])
        if near is not None and step > 0:
            dmax = max(abs(x - near[0]), abs(y - near[1]))
            if dmax // step > 400:   # keep the number of intermediate moves bounded
                step = rng.choice([dmax // 100 + 1, dmax - 1, dmax, dmax + 1, dmax // 2])
        return (k, x, y, step)
    if k == "paste":
        n = rng.choice([0, 1, 2, 17, 300])
        alphabet = ["a", "b", " ", "\n", "\r", "\r\n", "\t", "\xe9", "\xff", "\x00", "\\", "'"] \
            if rng.random() < 0.9 else ["a", "b", "Ā", "€"]
        return (k, "".join(rng.choice(alphabet) for _ in range(n)))
    if k in ("refreshScreen", "captureScreen"):
        return (k, rng.choice([0, 1]))
    if k == "expectScreen":
        return (k,)
    if k == "fbur":
        def c():
            return rng.choice([0, 1, 7, 100, 65535])
        w = None if rng.random() < 0.3 else c()
        h = None if rng.random() < 0.3 else c()
        return (k, c() if rng.random() < 0.5 else 0, c() if rng.random() < 0.5 else 0, w, h, rng.choice([0, 1]))
    if k == "setPixelFormat":
        base = rng.choice([(32, 24, 0, 1, 255, 255, 255, 0, 8, 16), (16, 16, 0, 1, 31, 63, 31, 11, 5, 0),
                           (8, 8, 1, 0, 7, 7, 3, 0, 3, 6)])
        pf = list(base)
        if rng.random() < 0.5:
            i = rng.randrange(10)
            pf[i] = rng.choice([0, 1, 255, 65535]) if i in (4, 5, 6) else rng.choice([0, 1, 32, 255])
        return (k, tuple(pf))
    if k == "setEncodings":
        n = rng.choice([0, 1, 2, 5, 40])
        pool = [0, 1, 2, 4, 5, 16, -223, -224, -239, -258, 0x7FFFFFFF, -2**31, 1000]
        return (k, tuple(rng.choice(pool) for _ in range(n)))
    raise ValueError(k)


ALL_KINDS = ["keyPress", "keyDown", "keyUp", "mouseMove", "mouseDown", "mouseUp", "mousePress", "mouseDrag",
             "paste", "refreshScreen", "captureScreen", "expectScreen", "fbur", "setPixelFormat", "setEncodings"]


def gen_history(rng, kinds, maxlen):
    n = rng.randrange(1, maxlen + 1)
    ops = []
    pos = (0, 0)
    for _ in range(n):
        op = gen_op(rng, kinds, near=pos)
        if op[0] in ("mouseMove", "mouseDrag") and 0 <= op[1] <= 65535 and 0 <= op[2] <= 65535:
            if op[0] == "mouseMove" or op[3] != 0:
                pos = (op[1], op[2])
        ops.append(op)
    return ops


def run_campaign(camp, model, rng, ncases, kinds, maxlen, pid, force_caps_choices=(False, True)):
    """Shared body: generate histories, run the real client, compare with (a) the spec oracle
    and (b) the extracted model."""
    cases = []
    for i in range(ncases):
        width = rng.choice([8, 640, 1024, 65535])
        height = rng.choice([8, 480, 768, 65535])
        fc = rng.choice(force_caps_choices)
        hs = rng.random() < 0.5
        ops = gen_history(rng, kinds, maxlen)
        cases.append((width, height, fc, hs, ops))
    answers = None
    if model is not None:
        answers = model.call_many([model_request(*c) for c in cases])
    for ci, case in enumerate(cases):
        width, height, fc, hs, ops = case
        real, final = run_real(*case)
        spec = Spec(width, height, hs, fc)
        camp.evaluations += 1
        nontriv = False
        for oi, (op, got) in enumerate(zip(ops, real)):
            camp.count(op[0])
            exp = spec.expected(op)
            if exp is None:
                camp.count("outside-domain")
                # a move / press / click that raises (a coordinate or button that does not fit the message) is not
                # remembered: the history goes on as if it had not been made.  Other out-of-range pointer operations
                # (a drag that fails half way, a release of button 9) leave the property's domain: the rest of the
                # history is compared with the model only
                if op[0] in ("mouseMove", "mouseDown", "mousePress") and got is None:
                    camp.count("raised-and-forgotten")
                    continue
                if op[0].startswith("mouse"):
                    break
                continue
            nontriv = True
            parsed = parse_c2s(got) if got is not None else None
            if parsed != exp:
                camp.oracle_failures.append({
                    "kind": "oracle", "property": pid, "case": {"width": width, "height": height,
                    "force_caps": fc, "has_screen": hs, "ops": [list(o) for o in ops[:oi + 1]]},
                    "what": f"op #{oi} {op!r}: expected messages {exp!r}, client wrote "
                            f"{'an exception' if got is None else parsed if parsed is not None else got.hex()}"})
                break
        if nontriv:
            camp.nontrivial.add(repr(case))
        if answers is not None:
            ans = answers[ci]
            m_final, m_ws = ans[0], ans[1]
            m_bytes = [bytes(w[0]) if w else None for w in m_ws]
            if m_bytes != real or tuple(m_final) != tuple(final):
                idx = next((i for i, (a, b) in enumerate(zip(m_bytes, real)) if a != b), None)
                camp.model_mismatches.append({
                    "property": pid, "case": {"width": width, "height": height, "force_caps": fc,
                    "has_screen": hs, "ops": [list(o) for o in ops]},
                    "what": f"op #{idx} {ops[idx] if idx is not None else 'final state'!r}: model "
                            f"{m_bytes[idx].hex() if idx is not None and m_bytes[idx] is not None else None} vs client "
                            f"{real[idx].hex() if idx is not None and real[idx] is not None else None}; final model {m_final} client {final}"})
        if len(camp.samples) < 5:
            camp.samples.append({"width": width, "height": height, "force_caps": fc, "ops": [list(o) for o in ops[:6]]})


def replay_case(case, pid):
    ops = [tuple(tuple(x) if isinstance(x, list) else x for x in o) for o in case["ops"]]
    real, final = run_real(case["width"], case["height"], case["force_caps"], case["has_screen"], ops)
    spec = Spec(case["width"], case["height"], case["has_screen"], case["force_caps"])
    for oi, (op, got) in enumerate(zip(ops, real)):
        exp = spec.expected(op)
        if exp is None:
            if op[0] in ("mouseMove", "mouseDown", "mousePress") and got is None:
                continue
            if op[0].startswith("mouse"):
                break
            continue
        parsed = parse_c2s(got) if got is not None else None
        if parsed != exp:
            return False, f"replay: op #{oi} {op!r}: expected {exp!r}, got {parsed!r}"
    return True, "replay: the stored case now satisfies the property"
