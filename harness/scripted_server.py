"""Scripted loopback RFB server used by the C09/C11 campaigns.

A script is a list of actions executed on one accepted connection:
  ("send", bytes) | ("recv", n) | ("recv_some",) | ("close",) | ("rst",) | ("sleep", s)
  | ("silent",)  -- keep the socket open, read and discard until the peer closes
"""
from __future__ import annotations

import socket
import struct
import threading
import time

PF32 = struct.pack("!BB??HHHBBBxxx", 32, 24, False, True, 255, 255, 255, 0, 8, 16)


def server_init(w=8, h=8, name=b"x", pf=PF32):
    return struct.pack("!HH16sI", w, h, pf, len(name)) + name


def handshake_none(version=b"003.008"):
    """actions of a complete None-security handshake for the given version"""
    acts = [("send", b"RFB " + version + b"\n"), ("recv", 12)]
    if version == b"003.003":
        acts += [("send", struct.pack("!I", 1))]
    elif version == b"003.007":
        acts += [("send", b"\x01\x01"), ("recv", 1)]
    else:
        acts += [("send", b"\x01\x01"), ("recv", 1), ("send", b"\0\0\0\0")]
    acts += [("recv", 1), ("send", server_init())]
    return acts


class ScriptedServer:
    def __init__(self, script, accept_n=1):
        self.script = script
        self.sock = socket.socket()
        self.sock.setsockopt(socket.SOL_SOCKET, socket.SO_REUSEADDR, 1)
        self.sock.bind(("127.0.0.1", 0))
        self.sock.listen(8)
        self.port = self.sock.getsockname()[1]
        self.received = []  # per connection: bytes received
        self.error = None
        self.accept_n = accept_n
        self.thread = threading.Thread(target=self._run, daemon=True)
        self.thread.start()

    def _recv_exact(self, c, n, buf):
        got = b""
        while len(got) < n:
            d = c.recv(n - len(got))
            if not d:
                raise EOFError
            got += d
        buf.append(got)
        return got

    def _run(self):
        try:
            for _ in range(self.accept_n):
                c, _a = self.sock.accept()
                buf = []
                self.received.append(buf)
                try:
                    for act in self.script:
                        k = act[0]
                        if k == "send":
                            c.sendall(act[1])
                        elif k == "recv":
                            self._recv_exact(c, act[1], buf)
                        elif k == "recv_some":
                            d = c.recv(65536)
                            if not d:
                                raise EOFError
                            buf.append(d)
                        elif k == "sleep":
                            time.sleep(act[1])
                        elif k == "close":
                            c.shutdown(socket.SHUT_RDWR)
                            break
                        elif k == "rst":
                            c.setsockopt(
                                socket.SOL_SOCKET, socket.SO_LINGER, struct.pack("ii", 1, 0)
                            )
                            break
                        elif k == "frames":
                            # an interactive framebuffer: every FramebufferUpdateRequest is answered, act[1] seconds later, by a
                            # full raw 8x8 update whose colour tells which request it answers (reply #k has red = 30*k, k <= 8)
                            self.replies = 0
                            pend = b""
                            c.settimeout(60)
                            while True:
                                d = c.recv(65536)
                                if not d:
                                    break
                                buf.append(d)
                                pend += d
                                while pend:
                                    t = pend[0]
                                    need = {0: 20, 3: 10, 4: 8, 5: 6}.get(t)
                                    if t == 2:
                                        need = 4 + 4 * int.from_bytes(pend[2:4], "big") if len(pend) >= 4 else None
                                    elif t == 6:
                                        need = 8 + int.from_bytes(pend[4:8], "big") if len(pend) >= 8 else None
                                    if need is None or len(pend) < need:
                                        break
                                    pend = pend[need:]
                                    if t == 3:
                                        time.sleep(act[1])
                                        self.replies += 1
                                        px = bytes([(30 * self.replies) % 256, 7, 9, 0]) * 64
                                        c.sendall(b"\0\0\0\x01" + struct.pack("!HHHHi", 0, 0, 8, 8, 0) + px)
                            break
                        elif k == "silent":
                            c.settimeout(60)
                            while True:
                                d = c.recv(65536)
                                if not d:
                                    break
                                buf.append(d)
                            break
                    else:
                        # script exhausted: drain until the client closes
                        c.settimeout(60)
                        while True:
                            d = c.recv(65536)
                            if not d:
                                break
                            buf.append(d)
                except (EOFError, OSError) as e:
                    self.error = e
                finally:
                    try:
                        c.close()
                    except OSError:
                        pass
        finally:
            self.sock.close()
