"""C05 - pointer events always carry the true position and button state."""
import random

import clientops
import common

TRUSTED_BASE = ["Spec/C2S.v: RFC 6143 §7.5 parser", "Proofs/PointerSpecP.v spec_step: the set-of-held-buttons specification",
                "twisted.internet.task.Clock stands in for the reactor (drag pauses)"]
ASSUMPTIONS = ["positions 0..65535, buttons 1..8, drag step >= 1",
               "'finishes before any later operation starts' is the C08 theorem instantiated at drag"]


def run(tier, seed, model):
    camp = common.Campaign()
    rng = random.Random(seed * 7919 + 5)
    n = 500 if tier == "quick" else 10000
    camp.rule = ("random histories of 1..60 pointer operations (move, down, up, click, drag incl. zero-length, axis-aligned, "
                 "diagonal, negative-direction, steps 1,2,3,7,50,1000; ~3% out-of-range buttons/steps) on the real "
                 "VNCDoToolClient under a virtual clock; PointerEvent bytes parsed independently and compared with the "
                 "held-set specification and with the extracted Coq model; non-trivial = at least one in-domain operation")
    clientops.run_campaign(camp, model, rng, n,
                           ["mouseMove", "mouseDown", "mouseUp", "mousePress", "mouseDrag", "mouseDrag"], 60, "C05",
                           force_caps_choices=(False,))
    return camp


def replay(payload):
    return clientops.replay_case(payload["case"], "C05")
