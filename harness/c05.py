"""C05 - pointer events always carry the true position and button state."""
import random

import clientops
import common

TRUSTED_BASE = ["Spec/C2S.v: RFC 6143 §7.5 parser", "Proofs/PointerSpecP.v spec_step: the set-of-held-buttons specification",
                "twisted.internet.task.Clock stands in for the reactor (drag pauses)"]
ASSUMPTIONS = ["positions 0..65535, buttons 1..8, drag step >= 1",
               "'finishes before any later operation starts' is the C08 theorem instantiated at drag"]


def run(tier, seed, model):
    camp = common.Campaign()
    rng = random.Random(seed * 7919 + 5)
    n = 500 if tier == "quick" else 10000
    camp.rule = ("random histories of 1..60 pointer operations (move, down, up, click, drag incl. zero-length, axis-aligned, "
                 "diagonal, negative-direction, steps 1,2,3,7,50,1000; ~3% out-of-range buttons/steps) on the real "
                 "VNCDoToolClient under a virtual clock; PointerEvent bytes parsed independently and compared with the "
                 "held-set specification and with the extracted Coq model; non-trivial = at least one in-domain operation; "
                 "then histories of up to 12 operations with server events between them (desktop-size changes down to 1x1, "
                 "rectangles, cursor shapes, bells), 40% of them at DEBUG log level, judged by the specification")
    clientops.run_campaign(camp, model, rng, n,
                           ["mouseMove", "mouseDown", "mouseUp", "mousePress", "mouseDrag", "mouseDrag"], 60, "C05",
                           force_caps_choices=(False,))
    if not camp.oracle_failures:
        interleaved(camp, rng, 150 if tier == "quick" else 3000)
    if not camp.oracle_failures:
        drag_and_other_callers(camp, rng, 2 if tier == "quick" else 12)
    return camp


def drag_and_other_callers(camp, rng, n):
    """'finishes before any later operation starts', through the threaded API: while one application thread's drag is
    running a second thread makes a call on the same client; at the server the drag's events are not interrupted"""
    import c11
    import common as _c
    from concurrent.futures import ThreadPoolExecutor
    specs = []
    for i in range(n):
        tx = rng.randrange(4, 8)
        other = rng.choice([("keyPress", ["a"]), ("mousePress", [3]), ("keyPress", ["enter"])])
        specs.append({"repo": _c.REPO, "harness": _c.VERIF + "/harness", "timeout": 6, "kind": "dragthreads", "clients": [
            {"id": 1, "server": "ok",
             "calls": [{"method": "mouseMove", "args": [0, 0], "sleep": 0}, {"method": "mouseDrag", "args": [tx, 0, 1], "sleep": 0}],
             "calls2": [{"method": other[0], "args": other[1], "sleep": 0}], "delay2": round(rng.uniform(0.4, 0.9), 2)}]})
    with ThreadPoolExecutor(max_workers=4) as ex:
        obs = list(ex.map(c11.run_child, specs))
    for i, (spec, ob) in enumerate(zip(specs, obs)):
        camp.evaluations += 1
        camp.count("drag-with-a-second-caller")
        camp.nontrivial.add(("dragthreads", i))
        why = None
        if "error" in ob:
            why = "the child process failed: " + ob["error"][-200:]
        else:
            wire = bytes.fromhex(ob["received"].get("1", ""))[14:]
            msgs = [m for m in (clientops.parse_c2s(wire) or []) if m[0] in ("KeyEvent", "PointerEvent")]
            tx = spec["clients"][0]["calls"][1]["args"][0]
            drag = [("PointerEvent", 0, x, 0) for x in range(0, tx)] + [("PointerEvent", 0, tx, 0)]
            # the drag's events, in order, as one uninterrupted run
            start = next((k for k in range(len(msgs)) if msgs[k:k + len(drag)] == drag), None)
            other = spec["clients"][0]["calls2"][0]
            if start is None:
                first = next((k for k, m in enumerate(msgs) if m == ("PointerEvent", 0, 0, 0)), 0)
                why = (f"the events of mouseDrag({tx}, 0) do not arrive as one run: the server received {msgs[first:first + len(drag) + 4]} "
                       f"(a second thread called {other['method']}{tuple(other['args'])} {spec['clients'][0]['delay2']} s into the drag)")
        if why:
            camp.oracle_failures.append({"kind": "oracle", "property": "C05", "case": {"dragthreads": i}, "what": why})
            return


def interleaved(camp, rng, n):
    """the same histories with the server busy in between (desktop grows and shrinks below the pointer, rectangles,
    cursor shapes, bells) and at default / DEBUG log level: none of that may move the pointer or touch the buttons"""
    from c04 import debug_logging
    import contextlib
    for i in range(n):
        ops = clientops.gen_history(rng, ["mouseMove", "mouseDown", "mouseUp", "mousePress", "mouseDrag", "mouseDrag"], 12)
        ops = [o for o in ops if o[0] != "mouseDrag" or max(abs(o[1]), abs(o[2])) < 70000]
        mixed = []
        for o in ops:
            mixed.append(o)
            r = rng.random()
            if r < 0.25:
                mixed.append(("srvSize", rng.choice([1, 2, 8, 30, 200]), rng.choice([1, 3, 8, 20, 100])))
            elif r < 0.35:
                mixed.append(("srvRect", rng.randrange(0, 6), rng.randrange(0, 6), rng.randrange(1, 5), rng.randrange(1, 5)))
            elif r < 0.45:
                mixed.append(("srvCursor", rng.randrange(0, 3), rng.randrange(0, 3), rng.randrange(1, 4), rng.randrange(1, 4)))
            elif r < 0.5:
                mixed.append(("srvBell",))
        dbg = rng.random() < 0.4
        hs = rng.random() < 0.7
        with (debug_logging() if dbg else contextlib.nullcontext()):
            real, final = clientops.run_real(8, 8, False, hs, mixed)
        spec = clientops.Spec(8, 8, hs, False)
        camp.evaluations += 1
        camp.count("interleaved:debug-log" if dbg else "interleaved:default-log")
        nontriv = False
        for oi, (op, got) in enumerate(zip(mixed, real)):
            exp = spec.expected(op)
            if exp is None:
                break
            if op[0].startswith("srv"):
                camp.count("interleaved:" + op[0])
                if got is None:           # a server event the client refuses is not this property's business
                    break
                continue
            nontriv = True
            parsed = clientops.parse_c2s(got) if got is not None else None
            if parsed != exp:
                camp.oracle_failures.append({
                    "kind": "oracle", "property": "C05",
                    "case": {"width": 8, "height": 8, "force_caps": False, "has_screen": hs, "ops": [list(o) for o in mixed[:oi + 1]],
                             "debug_logging": dbg},
                    "what": f"{'at DEBUG log level, ' if dbg else ''}op #{oi} {op!r} after {[o[0] for o in mixed[:oi]][-4:]}: expected messages "
                            f"{exp!r}, client wrote {'an exception' if got is None else parsed if parsed is not None else got.hex()}"})
                return
        if nontriv:
            camp.nontrivial.add(("mixed", i, repr(mixed[:6])))


def replay(payload):
    if "dragthreads" in payload["case"]:
        return True, "replay: threaded drag scenario; re-run ./check C05"
    if payload["case"].get("debug_logging"):
        from c04 import debug_logging
        with debug_logging():
            return clientops.replay_case(payload["case"], "C05")
    return clientops.replay_case(payload["case"], "C05")
