"""C06 - a screen capture is a complete, current, whole-desktop snapshot."""
import random
import struct

import common
import rfbgen
import rfbreal
from rfbcamp import trim
from rfbreal import Cfg, canon_model, merge_writes

TRUSTED_BASE = ["Model/Rfb.v (commit / waiter / op_capture) hand-written", "harness/rfbgen.py reference canvas and encoders",
                "Pillow PNG save/load (the saved file is decoded again to compare pixels)"]
ASSUMPTIONS = ["captures are sequential (script chain / blocking API): a new capture is issued after - possibly from the completion callback of - the previous one"]
EXTRA_VO = ["Proofs/RfbTieMessages.vo"]


def build(rng):
    """-> (cfg, items, expectations) ; expectations per capture: (inc, (W,H) at request, region, canvas snapshot that completes it)"""
    native = rng.choice(rfbgen.ACCEPTED[:2] + [rng.choice(rfbgen.ACCEPTED)])
    s = rfbgen.gen_session(rng, 1, None, want_success=True, native=native, nmsgs=0,
                           version=rng.choice([(3, 3), (3, 7), (3, 8)]), size=(rng.choice([4, 8, 20, 33]), rng.choice([4, 8, 17])))
    cfg = Cfg(variant=1, nocursor=True)
    items = [("chunk", bytes(s.data))]
    exps = []
    encs = ["raw", "rre", "corre", "hextile", "copyrect"]

    def chunks_of(data):
        if rng.random() < 0.3 or len(data) < 3:
            return [data]
        if rng.random() < 0.3 and len(data) <= 400:
            return [data[i:i + 1] for i in range(len(data))]
        cuts = sorted(rng.sample(range(1, len(data)), min(rng.randrange(1, 5), len(data) - 1)))
        return [data[a:b] for a, b in zip([0] + cuts, cuts + [len(data)])]

    def emit_update(allow_empty=True):
        start = len(s.data)
        nm = len(s.messages)
        rfbgen.gen_update(rng, s, encs, nrects=rng.choice([0, 1, 1, 2, 3]) if allow_empty else rng.choice([1, 2, 3]))
        data = bytes(s.data[start:])
        real = s.messages[-1][1] if len(s.messages) > nm else []
        for ch in chunks_of(data):
            items.append(("chunk", ch))
        return bool(real)

    # the server paints the whole desktop once (so a screen exists), possibly away from the origin first
    w0, h0 = s.size
    rows = rfbgen.rand_fb(rng, s.fmt, w0, h0)
    s.add(b"\x00" + struct.pack("!xH", 1))
    s.add(rfbgen.rect_header(0, 0, w0, h0, 0))
    s.add(rfbgen.enc_raw(s.fmt, rows))
    s.canvas.put(0, 0, w0, h0, [s.fmt.rgb(v) for r in rows for v in r])
    s.messages.append(("fbu", [(0, 0, w0, h0)]))
    items[0] = ("chunk", bytes(s.data))
    for _ in range(rng.randrange(1, 5)):
        if rng.random() < 0.5:
            emit_update()                       # unsolicited update / desktop-size change before the capture
        inc = rng.choice([0, 0, 1])
        region = None
        if rng.random() < 0.3:
            w, h = s.size
            region = (rng.randrange(0, max(1, w)), rng.randrange(0, max(1, h)), rng.randrange(1, 6), rng.randrange(1, 6))
            items.append(("rcapture",) + region)
            inc = 0
        else:
            items.append(("capture", inc))
        size_at_request = s.size
        # updates until one commits
        done = False
        guard = 0
        while not done and guard < 6:
            done = emit_update(allow_empty=(guard < 2))
            guard += 1
        snap = s.canvas.tobytes()
        exps.append((inc, size_at_request, region, snap, done))
        if done and rng.random() < 0.5:
            # the server goes on at once: the segment that ends the answering update also carries the beginning (or all) of
            # the next, unsolicited one - the capture is still the screen at the commit of ITS update
            j = len(items) - 1
            emit_update(allow_empty=False)
            if items[j][0] == "chunk" and len(items) > j + 1 and items[j + 1][0] == "chunk":
                k = j + 2 if rng.random() < 0.6 else len(items)          # glue the first chunk, or the whole next update
                glued = b"".join(it[1] for it in items[j:k])
                items[j:k] = [("chunk", glued)]
    return cfg, s, items, exps


def crop(snap, region):
    (W, H), px = snap
    x, y, w, h = region
    out = bytearray()
    for yy in range(y, y + h):
        for xx in range(x, x + w):
            if xx < W and yy < H:
                out += px[3 * (yy * W + xx):3 * (yy * W + xx) + 3]
            else:
                out += b"\0\0\0"
    return (w, h), bytes(out)


def judge(r, exps):
    if r["final"][0] != "idle":
        return f"client ended {r['final']}"
    ev = r["events"]
    caps = r["captures"]
    save_pos = [i for i, e in enumerate(ev) if e[0] == "Save"]
    if len(save_pos) != sum(1 for e in exps if e[4]):
        return f"{len(save_pos)} images saved for {sum(1 for e in exps if e[4])} completed captures"
    k = 0
    for ci, ((inc, (W, H), region, snap, done), cap) in enumerate(zip(exps, caps)):
        pos = cap["log_pos"]
        # the request written by the capture call
        reqs = [e for e in ev[pos - 1:pos + 1] if e[0] == "W"] if pos > 0 else []
        req = ev[pos - 1] if pos > 0 and ev[pos - 1][0] == "W" else None
        want = struct.pack("!BBHHHH", 3, inc, 0, 0, W, H)
        if req is None or req[1] != want:
            return (f"capture #{ci}: request {req and req[1].hex()} but the desktop as last announced is {W}x{H} "
                    f"(expected {want.hex()})")
        if not done:
            continue
        sp = save_pos[k]
        k += 1
        if sp < pos:
            return f"capture #{ci}: image saved before the capture was requested"
        if ev[sp - 1][0] != "Commit":
            return f"capture #{ci}: image saved outside a completed update (previous event {trim([ev[sp - 1]])})"
        # no Commit between the request and the save other than the one that triggers it, unless those updates had no rects
        commits_between = [i for i in range(pos, sp) if ev[i][0] == "Commit"]
        if len(commits_between) != 1:
            return f"capture #{ci}: completed at the {len(commits_between)}th update applied after the request, not the first"
        want_img = snap if region is None else crop(snap, region)
        if cap["image"] != want_img:
            return (f"capture #{ci}: saved image {cap['image'] and cap['image'][0]} is not the screen after the update "
                    f"{want_img and want_img[0]}" + (f" (region {region})" if region else ""))
    return None


def chained(camp, rng, n):
    """captures issued from the completion of the previous one (the script chain of `vncdo capture a capture b`, or
    d.addCallback(lambda c: c.captureScreen(...))): each must still complete at its own update"""
    import io
    from PIL import Image
    from twisted.internet.testing import StringTransport
    from vncdotool import client as vclient
    import clientops
    for i in range(n):
        W, H = rng.choice([4, 8, 12]), rng.choice([4, 6, 9])
        c = vclient.VNCDoToolClient()
        c.factory = vclient.VNCDoToolFactory()
        c.factory.nocursor = True
        c.makeConnection(StringTransport())
        c.dataReceived(b"RFB 003.008\n\x01\x01\0\0\0\0" + struct.pack("!HH16sI", W, H, rfbgen.RGB32.block(), 0))

        def update(colour):
            px = bytes([colour[0], colour[1], colour[2], 0]) * (W * H)
            half = W * 2 * 4
            return (b"\0\0\0\x02" + struct.pack("!HHHHi", 0, 0, W, 2, 0) + px[:half]
                    + struct.pack("!HHHHi", 0, 2, W, H - 2, 0) + px[half:])
        c.dataReceived(update((1, 2, 3)))
        k = rng.randrange(2, 5)
        fps = [io.BytesIO() for _ in range(k)]
        regions = [None if rng.random() < 0.6 else (rng.randrange(W), rng.randrange(H), rng.randrange(1, 4), rng.randrange(1, 4)) for _ in range(k)]

        def start(j, cl):
            if regions[j] is None:
                return cl.captureScreen(fps[j], False, format="png")
            return cl.captureRegion(fps[j], *regions[j], format="png") if False else cl._capture(fps[j], False, regions[j][0], regions[j][1], regions[j][0] + regions[j][2], regions[j][1] + regions[j][3], format="png")
        c.transport.clear()
        d = start(0, c)
        for j in range(1, k):
            d.addCallback(lambda cl, j=j: start(j, cl))
        finished = []
        d.addCallback(lambda cl: finished.append(True))
        camp.evaluations += 1
        camp.count("chained-captures", k)
        camp.nontrivial.add(("chained", i))
        why = None
        for j in range(k):
            reqs = clientops.parse_c2s(c.transport.value())
            c.transport.clear()
            if reqs != [("FbUpdateRequest", 0, 0, 0, W, H)]:
                why = f"chained capture #{j}: requests written {reqs}, exactly one whole-desktop request expected"
                break
            colour = (10 + 20 * j, 200 - 30 * j, 5 * j)
            data = update(colour)
            cutat = rng.randrange(1, len(data))
            c.dataReceived(data[:cutat])
            if fps[j].getvalue():
                why = f"chained capture #{j}: image written before its update was complete"
                break
            c.dataReceived(data[cutat:])
            raw = fps[j].getvalue()
            if not raw:
                why = f"chained capture #{j} (issued from the completion of capture #{j - 1}): no image was written when its update was applied"
                break
            im = Image.open(io.BytesIO(raw)).convert("RGB")
            want_size = (W, H) if regions[j] is None else (regions[j][2], regions[j][3])
            px = set(im.getdata())
            inside = regions[j] is None or (regions[j][0] + regions[j][2] <= W and regions[j][1] + regions[j][3] <= H)
            if im.size != want_size or (inside and px != {colour}):
                why = f"chained capture #{j}: image {im.size} with colours {sorted(px)[:3]}, expected {want_size} of {colour}"
                break
        if not why and not finished:
            why = "the chain of captures did not run to its end"
        if why:
            camp.oracle_failures.append({"kind": "oracle", "property": "C06", "case": {"chained": i, "captures": k}, "what": why})
            return


def two_connections(camp, rng, n):
    """two clients in one process (vncdotool.api's own example): a capture completes on ITS connection's update only"""
    import io
    from PIL import Image
    from twisted.internet.testing import StringTransport
    from vncdotool import client as vclient

    def connect(w, h):
        c = vclient.VNCDoToolClient()
        c.factory = vclient.VNCDoToolFactory()
        c.factory.nocursor = True
        c.makeConnection(StringTransport())
        c.dataReceived(b"RFB 003.008\n\x01\x01\0\0\0\0" + struct.pack("!HH16sI", w, h, rfbgen.RGB32.block(), 0))
        return c

    def paint(c, w, h, colour):
        c.dataReceived(b"\0\0\0\x01" + struct.pack("!HHHHi", 0, 0, w, h, 0) + bytes(colour) * (w * h))

    for i in range(n):
        w, h = rng.randrange(1, 9), rng.randrange(1, 7)
        a, b = connect(w, h), connect(w, h)
        col = lambda: (rng.randrange(256), rng.randrange(256), rng.randrange(256), 0)  # noqa: E731
        ca, cb = col(), col()
        if rng.random() < 0.7:
            paint(a, w, h, ca)
        b_painted = rng.random() < 0.7
        if b_painted:
            paint(b, w, h, cb)
        buf = io.BytesIO()
        done, failed = [], []
        d = b.captureScreen(buf, format="png")
        d.addCallbacks(done.append, failed.append)
        ca2 = col()
        paint(a, w, h, ca2)                   # the OTHER connection's update commits
        camp.evaluations += 1
        camp.count("two-connections")
        camp.nontrivial.add(("two", i, w, h))
        why = None
        if done or failed or buf.getvalue():
            why = (f"a capture pending on connection B {'failed' if failed else 'completed'} when connection A's update was committed "
                   f"({len(buf.getvalue())} bytes saved{'; ' + repr(failed[0].value) if failed else ''}) - B has received no update since its request")
        else:
            cb2 = col()
            try:
                paint(b, w, h, cb2)
            except Exception as e:  # noqa: BLE001
                why = f"connection B's own update raised {type(e).__name__}: {e}"
            if why is None and not done:
                why = "connection B's own update did not complete its capture"
            elif why is None:
                im = Image.open(io.BytesIO(buf.getvalue())).convert("RGB")
                if im.size != (w, h) or set(im.getdata()) != {tuple(cb2[:3])}:
                    why = f"connection B's capture shows {sorted(set(im.getdata()))[:3]} instead of its own update {tuple(cb2[:3])}"
        if why:
            camp.oracle_failures.append({"kind": "oracle", "property": "C06", "case": {"two_connections": i, "size": [w, h]}, "what": why})
            return


def run(tier, seed, model):
    camp = common.Campaign()
    rng = random.Random(seed * 7919 + 6)
    n = 250 if tier == "quick" else 6000
    reqs = []
    meta = []
    for i in range(n):
        cfg, s, items, exps = build(rng)
        camp.evaluations += 1
        r = rfbreal.run_script_real(cfg, items)
        camp.nontrivial.add(i)
        camp.count("captures", len(exps))
        camp.count("region-captures", sum(1 for e in exps if e[2]))
        camp.count("desktopsize", s.notes.get("desktopsize", 0))
        camp.count("chunks", sum(1 for it in items if it[0] == "chunk"))
        why = judge(r, exps)
        if why:
            camp.oracle_failures.append({"kind": "oracle", "property": "C06",
                                         "case": {"items": [[it[0]] + [x.hex() if isinstance(x, bytes) else x for x in it[1:]] for it in items],
                                                  "exps": [[e[0], list(e[1]), e[2], e[4]] for e in exps]},
                                         "what": why})
            if len(camp.oracle_failures) >= 3:
                break
        if model is not None and not any(it[0] == "rcapture" for it in items):
            sx_items = [[0, it[1]] if it[0] == "chunk" else [1, int(it[1])] for it in items]
            reqs.append(("rfb_script", [cfg.to_sx(), [], [[] if t is None else [t] for t in r["tape"]], False, sx_items, False]))
            meta.append((i, r))
        if len(camp.samples) < 4 and i % 61 == 0:
            camp.samples.append({"items": [it[0] if it[0] != "chunk" else f"chunk:{len(it[1])}B" for it in items][:14],
                                 "captures": len(exps)})
    chained(camp, rng, 25 if tier == "quick" else 500)
    if not camp.oracle_failures:
        two_connections(camp, rng, 20 if tier == "quick" else 400)
    if model is not None and reqs:
        for ans, (i, r) in zip(model.call_many(reqs), meta):
            ev, fin = canon_model(ans)
            real = merge_writes(r["events"])
            if ev != real:
                from rfbcamp import first_diff
                camp.model_mismatches.append({"property": "C06", "case": {"index": i},
                                              "what": f"session {i}: events differ at {first_diff(ev or [], real)}"})
    camp.rule = ("sessions on the real library client: handshake, then 1..4 captures (whole-screen incl. incremental, and region "
                 "captures), each preceded by optional unsolicited updates / desktop-size changes and followed by updates (0..3 "
                 "rectangles, every non-ZRLE encoding) until one commits, the server bytes cut into random chunks incl. "
                 "byte-at-a-time; judged: request geometry = latest announced size, exactly one image per capture, saved right "
                 "after the first commit following the request, PNG pixels == reference canvas (or its crop); events compared with "
                 "the Coq model (rfb_script); every session is non-trivial (distinct by construction)")
    return camp


def replay(payload):
    case = payload["case"]
    if "items" not in case:
        return True, "replay: chained / two-connection scenario; re-run ./check C06"
    items = [tuple([it[0]] + [bytes.fromhex(x) if isinstance(x, str) else x for x in it[1:]]) for it in case["items"]]
    r = rfbreal.run_script_real(Cfg(variant=1, nocursor=True), items)
    return True, f"replay: final {r['final']}, {len(r['captures'])} captures, saves at {[i for i, e in enumerate(r['events']) if e[0] == 'Save']}"
