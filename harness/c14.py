"""C14 - authentication responses are exactly what a conforming server verifies."""
import random
import struct

import common

from Cryptodome.Cipher import AES, DES
from Cryptodome.Hash import MD5
from twisted.internet.testing import StringTransport

from vncdotool import rfb

TRUSTED_BASE = ["Spec/DES.v: FIPS 46-3 written by hand (tables, Feistel structure); Cryptodome's DES is compared with it on known-answer "
                "vectors and random key/block pairs on every run", "MD5 and AES-128-ECB are parameters of the theorems (only "
                "'decryption inverts encryption' and 'length preserved' are assumed); the harness applies Cryptodome's to the model's parts",
                "os.urandom is replaced by a tape"]
ASSUMPTIONS = ["ASCII passwords for VNC authentication (str.encode('ASCII') raises otherwise: compared with the model, not judged)",
               "ARD credentials whose UTF-8 encoding is at most 64 bytes each; the modulus field has exactly keyLen bytes and is non-zero; "
               "the server's public key is g^a mod m for its private a"]

# NIST SP 800-17 / classic known-answer vectors (key, plaintext, ciphertext)
KAT = [
    ("133457799BBCDFF1", "0123456789ABCDEF", "85E813540F0AB405"),
    ("0101010101010101", "8000000000000000", "95F8A5E5DD31D900"),
    ("0101010101010101", "0000000000000001", "166B40B44ABA4BD6"),
    ("8001010101010101", "0000000000000000", "95A8D72813DAA94D"),
    ("0101010101010102", "0000000000000000", "869EFD7F9F265A09"),
    ("7CA110454A1A6E57", "01A1D6D039776742", "690F5B0D9A26939B"),
    ("0131D9619DC1376E", "5CD54CA83DEF57DA", "7A389D10354BD271"),
    ("FEDCBA9876543210", "0123456789ABCDEF", "ED39D950FA74BCC4"),
    ("0000000000000000", "0000000000000000", "8CA64DE9C1B123A7"),
    ("FFFFFFFFFFFFFFFF", "FFFFFFFFFFFFFFFF", "7359B2163E4EDC58"),
]


def rev_bits(b):
    return int(format(b, "08b")[::-1], 2)


def spec_key(pw: str) -> bytes:
    """the statement's key: first eight characters, NUL padded, bits of each byte reversed"""
    raw = (pw[:8] + "\0" * 8)[:8].encode("ascii")
    return bytes(rev_bits(b) for b in raw)


def real_response(pw, chal):
    c = rfb.RFBClient()
    c.factory = rfb.RFBFactory()
    c.makeConnection(StringTransport())
    c._challenge = chal
    try:
        c.sendPassword(pw)
    except Exception as e:  # noqa: BLE001  (no response is a wrong response: the judge sees what reached the wire)
        return b"raised " + type(e).__name__.encode() + b": " + str(e)[:60].encode()
    return c.transport.value()


def real_ard(user, pw, tape, g, keylen, modulus, serverkey):
    c = rfb.RFBClient()
    c.factory = rfb.RFBFactory()
    c.factory.username, c.factory.password = user, pw
    c.makeConnection(StringTransport())
    c.generator, c.keyLen, c.modulus, c.serverKey = g, keylen, modulus, serverkey
    old = rfb.os.urandom
    rfb.os.urandom = lambda n: tape
    try:
        c._encryptArd()
    except Exception as e:  # noqa: BLE001
        return e
    finally:
        rfb.os.urandom = old
    return c.transport.value()


def gen_password(rng):
    n = rng.choice([0, 1, 2, 7, 8, 9, 16, 40])
    pool = rng.choice(["ascii", "ascii", "letters", "edge"])
    if pool == "letters":
        return "".join(rng.choice("abcXYZ019") for _ in range(n))
    if pool == "edge":
        return "".join(rng.choice("\x00\x01\x7f\x80@~ ") for _ in range(n)).replace("\x80", "\x7f")
    return "".join(chr(rng.randrange(0, 128)) for _ in range(n))


def run(tier, seed, model):
    camp = common.Campaign()
    rng = random.Random(seed * 7919 + 14)
    if model is None:
        camp.model_mismatches.append({"property": "C14", "what": "executable model unavailable"})
        return camp
    # ---- 0. the DES specification against Cryptodome (validates what stands for the library in the model)
    reqs, exp = [], []
    for k, p, c in KAT:
        reqs.append(("des", [bytes.fromhex(k), bytes.fromhex(p), 0]))
        exp.append(bytes.fromhex(c))
    n_rand = 300 if tier == "quick" else 20000
    for _ in range(n_rand):
        k = bytes(rng.getrandbits(8) for _ in range(8))
        d = bytes(rng.getrandbits(8) for _ in range(rng.choice([8, 16, 16, 24])))
        dec = rng.choice([0, 1])
        reqs.append(("des", [k, d, dec]))
        cip = DES.new(k, DES.MODE_ECB)
        exp.append(cip.decrypt(d) if dec else cip.encrypt(d))
    for (name, arg), ans, e in zip(reqs, model.call_many(reqs), exp):
        camp.evaluations += 1
        if bytes(ans) != e:
            camp.model_mismatches.append({"property": "C14", "case": {"key": arg[0].hex(), "data": arg[1].hex(), "decrypt": arg[2]},
                                          "what": f"FIPS 46-3 DES (Spec/DES.v) {bytes(ans).hex()} differs from Cryptodome DES {e.hex()} "
                                                  f"for key {arg[0].hex()} data {arg[1].hex()}"})
            break
    camp.count("des-known-answer-vectors", len(KAT))
    camp.count("des-random-pairs", n_rand)
    # ---- 1. VNC authentication
    n = 600 if tier == "quick" else 40000
    cases = []
    for i in range(n):
        pw = gen_password(rng) if (i % 5 or not cases) else rng.choice(cases)[0]     # repeated passwords within one process
        chal = bytes(rng.choice([0, 255, rng.getrandbits(8)]) for _ in range(16)) if i % 7 else bytes(16)
        cases.append((pw, chal))
    reqs = []
    for pw, chal in cases:
        reqs.append(("des", [spec_key(pw), chal, 0]))           # the statement's response, by the FIPS spec
        reqs.append(("vnc_key", pw))
    answers = model.call_many(reqs)
    for i, (pw, chal) in enumerate(cases):
        camp.evaluations += 1
        camp.count("password-length:%s" % (len(pw) if len(pw) <= 9 else ">9"))
        camp.nontrivial.add((pw, chal))
        got = real_response(pw, chal)
        want = bytes(answers[2 * i])
        mkey = answers[2 * i + 1]
        why = None
        if got.startswith(b"raised "):
            why = "sendPassword " + got.decode(errors="replace") + " - nothing answers the challenge"
        elif len(got) != 16:
            why = f"response has {len(got)} bytes"
        elif got != want:
            why = f"response {got.hex()} is not DES-ECB(key {spec_key(pw).hex()})(challenge) = {want.hex()}"
        else:
            # the conforming server: decrypt with its own key derivation and DES
            back = DES.new(spec_key(pw), DES.MODE_ECB).decrypt(got)
            if back != chal:
                why = "a server decrypting the response does not recover its challenge"
        if why:
            camp.oracle_failures.append({"kind": "oracle", "property": "C14", "case": {"password": [ord(c) for c in pw], "challenge": chal.hex()},
                                         "what": f"VNC authentication, password {pw!r}, challenge {chal.hex()}: {why}"})
            if len(camp.oracle_failures) >= 3:
                return camp
        if not mkey or bytes(mkey[0]) != rfb._vnc_des(pw):
            camp.model_mismatches.append({"property": "C14", "case": {"password": [ord(c) for c in pw]},
                                          "what": f"_vnc_des({pw!r}) = {rfb._vnc_des(pw).hex()} but the model gives {mkey}"})
    # ---- 1b. the same through the real handshake, for the three client classes (the password may be empty: 8 NUL bytes)
    import rfbreal
    for variant in (0, 1, 2):
        for pw in ["", "a", "secret", "longerthan8chars"]:
            chal = bytes(rng.getrandbits(8) for _ in range(16))
            stream = b"RFB 003.008\n\x01\x02" + chal
            for chunks in ([stream], [stream[:13], stream[13:20], stream[20:]]):
                camp.evaluations += 1
                camp.count("handshake-driven:" + ["base", "library", "cli"][variant])
                r = rfbreal.run_real(rfbreal.Cfg(variant=variant, password=pw), chunks)
                written = b"".join(e[1] for e in r["events"] if e[0] == "W")
                want = DES.new(spec_key(pw), DES.MODE_ECB).encrypt(chal)
                other = [e[0] for e in r["events"] if e[0] not in ("W",)]
                if written[-16:] != want or len(written) != 12 + 1 + 16 or other:
                    camp.oracle_failures.append({"kind": "oracle", "property": "C14",
                                                 "case": {"password": [ord(c) for c in pw], "challenge": chal.hex(), "variant": variant},
                                                 "what": f"{['RFBClient', 'VNCDoToolClient', 'VNCDoCLIClient'][variant]} with password {pw!r}: after the "
                                                         f"challenge it wrote {written[13:].hex() or 'nothing'} (other events {other}); a server expects "
                                                         f"{want.hex()}"})
                    return camp
    # ---- 2. Apple Remote Desktop
    m_ard = 250 if tier == "quick" else 6000
    reqs, meta = [], []
    for i in range(m_ard):
        keylen = rng.choice([1, 2, 2, 3, 4, 8, 16, 64, 128, 128, 256])
        lead = rng.choice([0, 0, 1, keylen // 2, keylen - 1])
        lead = min(lead, keylen - 1)
        modulus = bytes(lead) + bytes([rng.randrange(1, 256)]) + bytes(rng.getrandbits(8) for _ in range(keylen - lead - 1))
        m = int.from_bytes(modulus, "big")
        g = rng.choice([2, 3, 5, 7, 65535, rng.randrange(0, 65536)])
        a = rng.choice([0, 1, 2, rng.getrandbits(16), rng.getrandbits(256)])
        serverkey = pow(g, a, m).to_bytes(keylen, "big")
        # the client's secret: 512 random bytes; small values force leading zero bytes in g^s mod m
        s = rng.choice([0, 1, 2, 3, rng.getrandbits(8), rng.getrandbits(4096), rng.getrandbits(4096)])
        tape = s.to_bytes(512, "big")
        def cred():
            k = rng.choice([0, 1, 5, 31, 63, 64])
            kind = rng.choice(["ascii", "ascii", "utf8"])
            if kind == "utf8":
                t = ""
                while len(t.encode()) < k - 3:
                    t += rng.choice("aé€😀")
                return t
            return "".join(chr(rng.randrange(1, 128)) for _ in range(k))
        user, pw = cred(), cred()
        camp.evaluations += 1
        camp.count("keylen:%d" % keylen)
        camp.nontrivial.add((i,))
        reply = real_ard(user, pw, tape, g, keylen, modulus, serverkey)
        why = None
        plain_want = user.encode().ljust(64, b"\0") + pw.encode().ljust(64, b"\0")
        if isinstance(reply, Exception):
            why = f"_encryptArd raised {type(reply).__name__}: {reply}"
        elif len(reply) != 128 + keylen:
            why = f"reply has {len(reply)} bytes, a server reads 128 + keyLen = {128 + keylen}"
        else:
            ct, ck = reply[:128], reply[128:]
            shared = pow(int.from_bytes(ck, "big"), a, m).to_bytes(keylen, "big")
            plain = AES.new(MD5.new(shared).digest(), AES.MODE_ECB).decrypt(ct)
            if plain != plain_want:
                lz = len(ck) - len(ck.lstrip(b"\0"))
                why = (f"the server (private exponent a, shared = clientKey^a mod m padded to keyLen) does not recover the credentials "
                       f"(client key has {lz} leading zero bytes)")
            else:
                if ck[:1] == b"\0":
                    camp.count("client-public-key-with-leading-zero")
                if shared[:1] == b"\0":
                    camp.count("shared-secret-with-leading-zero")
        if why:
            camp.oracle_failures.append({"kind": "oracle", "property": "C14",
                                         "case": {"user": [ord(c) for c in user], "pw": [ord(c) for c in pw], "s": hex(s), "g": g, "keylen": keylen,
                                                  "modulus": modulus.hex(), "a": hex(a)},
                                         "what": f"ARD, keyLen {keylen}, g {g}, modulus {modulus.hex()[:24]}.., secret {hex(s)[:20]}: {why}"})
            if len(camp.oracle_failures) >= 3:
                return camp
            continue
        # the model computes on inductive binary integers: compare where the modular exponentiation stays small
        if (8 * keylen) ** 2 * max(1, s.bit_length()) * 2 <= 3e7:
            camp.count("ard-compared-with-model")
            reqs.append(("ard_parts", [user, pw, tape, g, keylen, modulus, serverkey]))
            meta.append((i, reply))
    for ans, (i, reply) in zip(model.call_many(reqs), meta):
        if not ans:
            camp.model_mismatches.append({"property": "C14", "case": {"ard": i}, "what": f"ARD case {i}: the model raises, the client replied"})
            continue
        plain, shared, key = (bytes(x) for x in ans)
        mreply = AES.new(MD5.new(shared).digest(), AES.MODE_ECB).encrypt(plain) + key
        if mreply != reply:
            camp.model_mismatches.append({"property": "C14", "case": {"ard": i},
                                          "what": f"ARD case {i}: model reply differs from the client's (key {key.hex()[:16]} vs {reply[128:].hex()[:16]})"})
    if not camp.oracle_failures:
        several_factories(camp, rng, 40 if tier == "quick" else 1500)
    camp.rule = ("FIPS 46-3 DES of the spec vs Cryptodome on 10 known-answer vectors and random key/data pairs; VNC authentication: "
                 "sendPassword on a real RFBClient for ASCII passwords of length 0..40 (incl. NUL, DEL, >8 characters) x challenges "
                 "(random, all-zero, 0x00/0xFF mixes): response == spec DES-ECB under the statement's key, 16 bytes, and an "
                 "independent server decrypts it back; ARD: _encryptArd with os.urandom on a tape for key lengths 1..256, moduli with "
                 "leading zero bytes, secrets forcing leading-zero public/shared values, UTF-8 credentials up to 64 bytes: length 128 + "
                 "keyLen, a server with the private exponent recovers the padded credentials; model parts compared; non-trivial = case")
    return camp


def several_factories(camp, rng, n):
    """whole handshakes on real VNCDoToolClient connections: several factories (api.connect twice, as in api.py's example) are
    configured first, then their servers ask; each connection answers with ITS factory's credentials - and one without a
    password gives up instead of answering"""
    from vncdotool import client as vclient
    for i in range(n):
        k = rng.randrange(2, 5)
        conns = []
        for j in range(k):
            f = vclient.VNCDoToolFactory()
            pw = rng.choice([None, gen_password(rng), gen_password(rng), "secret%d" % j])
            user = rng.choice([None, "user%d" % j, "admin"])
            if pw is not None:
                f.password = pw
            if user is not None:
                f.username = user
            failed = []
            f.clientConnectionFailed = lambda c, reason, failed=failed: failed.append(reason)
            ard = rng.random() < 0.4 and pw is not None and user is not None
            typed = None
            if pw is not None and user is None and rng.random() < 0.5:
                # no --username: an ARD server makes the client ask for it on the terminal
                ard, typed = True, rng.choice(["alice", "a" * 63, "Administrator", "u ser"])
            conns.append({"f": f, "pw": pw, "user": user if typed is None else typed, "failed": failed, "ard": ard, "typed": typed})
        order = list(range(k))
        rng.shuffle(order)
        for j in order:                        # the servers answer in another order than the factories were configured
            cn = conns[j]
            c = vclient.VNCDoToolClient()
            c.factory = cn["f"]
            tr = StringTransport()
            c.makeConnection(tr)
            c.dataReceived(b"RFB 003.008\n")
            camp.evaluations += 1
            camp.nontrivial.add(("factories", i, j, cn["pw"], cn["user"], cn["ard"]))
            why = None
            try:
                if cn["ard"]:
                    camp.count("several-factories:ard" + (":user-typed-at-the-prompt" if cn["typed"] is not None else ""))
                    c.dataReceived(b"\x01\x1e")
                    tr.clear()
                    keylen = rng.choice([8, 16, 32])
                    m = rng.getrandbits(8 * keylen) | (1 << (8 * keylen - 1)) | 1
                    a = rng.getrandbits(8 * keylen - 2) | 1
                    g = rng.choice([2, 3, 5])
                    import io
                    import sys
                    saved_io = (sys.stdin, sys.stdout, sys.stderr)
                    if cn["typed"] is not None:
                        sys.stdin, sys.stdout, sys.stderr = io.StringIO(cn["typed"] + "\n"), io.StringIO(), io.StringIO()
                    try:
                        c.dataReceived(struct.pack("!HH", g, keylen) + m.to_bytes(keylen, "big") + pow(g, a, m).to_bytes(keylen, "big"))
                    finally:
                        sys.stdin, sys.stdout, sys.stderr = saved_io
                    reply = tr.value()
                    want = cn["user"].encode().ljust(64, b"\0") + cn["pw"].encode().ljust(64, b"\0")
                    if len(reply) != 128 + keylen:
                        why = f"ARD reply of {len(reply)} bytes"
                    else:
                        shared = pow(int.from_bytes(reply[128:], "big"), a, m).to_bytes(keylen, "big")
                        plain = AES.new(MD5.new(shared).digest(), AES.MODE_ECB).decrypt(reply[:128])
                        if plain != want:
                            why = (f"the ARD server recovers user {plain[:64].rstrip(bytes(1))!r} / password {plain[64:].rstrip(bytes(1))!r}, this "
                                   f"connection's factory holds {cn['user']!r} / {cn['pw']!r}")
                else:
                    camp.count("several-factories:vnc-auth" if cn["pw"] is not None else "several-factories:no-password")
                    c.dataReceived(b"\x01\x02")
                    tr.clear()
                    chal = bytes(rng.getrandbits(8) for _ in range(16))
                    c.dataReceived(chal)
                    reply = tr.value()
                    if cn["pw"] is None:
                        if reply or not cn["failed"] or not tr.disconnecting:
                            why = (f"no password was given to this connection's factory, yet it answered the challenge with {reply.hex()} "
                                   f"(failure reported: {bool(cn['failed'])}, closed: {tr.disconnecting})")
                    else:
                        want = DES.new(spec_key(cn["pw"]), DES.MODE_ECB).encrypt(chal)
                        if reply != want:
                            others = [o["pw"] for o in conns if o is not cn and o["pw"] is not None and DES.new(spec_key(o["pw"]), DES.MODE_ECB).encrypt(chal) == reply]
                            why = (f"response {reply.hex()} is not the DES of the challenge under this factory's password {cn['pw']!r}"
                                   + (f" but under another factory's password {others[0]!r}" if others else ""))
            except Exception as e:  # noqa: BLE001
                why = f"raised {type(e).__name__}: {e}"
            if why:
                camp.oracle_failures.append({"kind": "oracle", "property": "C14", "case": {"several_factories": i},
                                             "what": f"{k} factories configured, then their servers ask (connection {j}): {why}"})
                return


def replay(payload):
    if "several_factories" in payload.get("case", {}):
        return True, "replay: several-factories scenario; re-run ./check C14"
    case = payload["case"]
    if "password" in case and "challenge" in case:
        pw = "".join(map(chr, case["password"]))
        chal = bytes.fromhex(case["challenge"])
        got = real_response(pw, chal)
        ok = DES.new(spec_key(pw), DES.MODE_ECB).decrypt(got) == chal and len(got) == 16
        return ok, f"replay: response {got.hex()} {'verifies' if ok else 'does NOT verify'} on the server side"
    if "modulus" in case:
        user, pw = "".join(map(chr, case["user"])), "".join(map(chr, case["pw"]))
        keylen, g, modulus = case["keylen"], case["g"], bytes.fromhex(case["modulus"])
        m, a, s = int.from_bytes(modulus, "big"), int(case["a"], 16), int(case["s"], 16)
        reply = real_ard(user, pw, s.to_bytes(512, "big"), g, keylen, modulus, pow(g, a, m).to_bytes(keylen, "big"))
        if isinstance(reply, Exception) or len(reply) != 128 + keylen:
            return False, f"replay: {reply if isinstance(reply, Exception) else len(reply)}"
        shared = pow(int.from_bytes(reply[128:], "big"), a, m).to_bytes(keylen, "big")
        plain = AES.new(MD5.new(shared).digest(), AES.MODE_ECB).decrypt(reply[:128])
        ok = plain == user.encode().ljust(64, b"\0") + pw.encode().ljust(64, b"\0")
        return ok, f"replay: server {'recovers' if ok else 'does NOT recover'} the credentials"
    return True, "replay: model-only case; re-run ./check C14"
