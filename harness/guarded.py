"""Run the real client in a child process with an address-space limit and a hard timeout, so that
a handler that never returns (or eats memory) is reported instead of hanging the check."""
from __future__ import annotations

import multiprocessing as mp
import resource


def _child(conn, mem_bytes):
    import rfbreal
    resource.setrlimit(resource.RLIMIT_AS, (mem_bytes, mem_bytes))
    while True:
        try:
            job = conn.recv()
        except EOFError:
            return
        if job is None:
            return
        cfg, chunks, limit = job
        for cls in (rfbreal.RecBase, rfbreal.RecLib, rfbreal.RecCli, rfbreal.RecVMware):
            cls._step_limit = limit
        try:
            r = rfbreal.run_real(cfg, chunks)
            r.pop("client", None)
            conn.send(("ok", r))
        except MemoryError:
            conn.send(("memory", None))
        except BaseException as e:  # noqa: BLE001
            conn.send(("error", repr(e)))


class GuardedRunner:
    def __init__(self, timeout=20, mem_gb=3):
        self.timeout = timeout
        self.mem = int(mem_gb * (1 << 30))
        self.ctx = mp.get_context("fork")
        self.proc = None
        self.conn = None

    def _start(self):
        parent, child = self.ctx.Pipe()
        self.proc = self.ctx.Process(target=_child, args=(child, self.mem), daemon=True)
        self.proc.start()
        child.close()
        self.conn = parent

    def run(self, cfg, chunks, limit):
        """-> ("ok", result) | ("timeout", None) | ("memory", None) | ("error", text)"""
        if self.proc is None or not self.proc.is_alive():
            self._start()
        self.conn.send((cfg, chunks, limit))
        if self.conn.poll(self.timeout):
            try:
                return self.conn.recv()
            except EOFError:
                self.proc = None
                return ("error", "worker died")
        self.proc.kill()
        self.proc.join()
        self.proc = None
        return ("timeout", None)

    def restart(self):
        """drop the worker (its address space may be fragmented or hold a giant image); the next run starts a fresh one"""
        if self.proc is not None:
            self.proc.kill()
            self.proc.join()
            self.proc = None

    def close(self):
        if self.proc is not None and self.proc.is_alive():
            try:
                self.conn.send(None)
            except Exception:  # noqa: BLE001
                pass
            self.proc.join(2)
            if self.proc.is_alive():
                self.proc.kill()
