#!/bin/sh
# Build the framework from files on disk only: regenerate Gen/, full make, extracted driver.
set -e
cd "$(dirname "$0")"
mkdir -p evidence replays coq/Gen
( cd coq && coq_makefile -f _CoqProject -o Makefile >/dev/null )
exec /venv/bin/python - <<'PY'
import sys
sys.path.insert(0, "harness")
import common
r = common.build()
print("gen_ok", r.gen_ok, "failed", r.failed_vo, "driver_ok", r.driver_ok, "wall %.1fs" % r.wall)
if not (r.gen_ok and not r.failed_vo and r.driver_ok):
    print(r.gen_msg); print(r.log[-3000:])
    sys.exit(1)
PY
