#!/bin/bash
# tools/matrix.sh SEED...: for every seed (seeded/<id>) apply its patch to a scratch worktree of /repo (never to /repo itself),
# run every property's quick check against that copy (VERIF_REPO) and report own alarms, misses and alarms of other properties.
# Uses /verif/coq and /verif/evidence (evidence is restored): do not run checks in /verif at the same time.
cd /verif
cp -r evidence /tmp/evidence.matrix.bak
git -C /repo worktree add -q /tmp/rtm HEAD
for sd in "$@"; do
  git -C /tmp/rtm checkout -q -- .
  git -C /tmp/rtm apply /verif/seeded/$sd/patch.diff || { echo "$sd: patch failed"; continue; }
  own=${sd%%-*}
  for p in C01 C02 C03 C04 C05 C06 C07 C08 C09 C10 C11 C12 C13 C14 C15 C16 C17 C18 C19 C20; do
    r=$(VERIF_REPO=/tmp/rtm VERIF_NO_ESCALATE=1 timeout 1500 ./check $p --tier quick 2>&1 | grep -v 'conda\|KNOWN-FINDING' | grep '^OK\|^VIOLATION' -A1 | cut -c1-160 | tr '\n' ' ')
    case "$r" in OK*) [ "$p" = "$own" ] && echo "$sd -> $p: MISSED $r";; *) [ "$p" = "$own" ] && echo "$sd -> $p: caught" || echo "$sd -> $p: CROSS $r";; esac
  done
done
git -C /repo worktree remove --force /tmp/rtm; git -C /repo worktree prune
rm -rf evidence; mv /tmp/evidence.matrix.bak evidence
echo MATRIX-DONE
