#!/venv/bin/python
"""tools/seedtest.py <seed_dir> [--keep-as NAME]
Verify a seeded change (patch.diff, demo.py, meta.json): demo PASS on the clean tree, unit tests
pass and demo FAIL with the patch, then run the property's quick check on the patched /repo and
report whether it raised a VIOLATION. /repo is always restored."""
import json
import os
import shutil
import subprocess
import sys

REPO = "/repo"
VERIF = "/verif"


def sh(cmd, **kw):
    p = subprocess.run(cmd, shell=True, stdout=subprocess.PIPE, stderr=subprocess.STDOUT, **kw)
    return p.returncode, p.stdout.decode(errors="replace")


def main():
    d = os.path.abspath(sys.argv[1])
    keep = sys.argv[3] if len(sys.argv) > 3 and sys.argv[2] == "--keep-as" else None
    meta = json.load(open(os.path.join(d, "meta.json")))
    pid = meta["property"]
    res = {"property": pid, "summary": meta.get("summary"), "needs": meta.get("needs")}
    rc, out = sh(f"git -C {REPO} status --porcelain")
    assert out.strip() == "", "repo dirty: " + out
    rc, out = sh(f"timeout 120 /venv/bin/python {d}/demo.py {REPO}")
    res["demo_clean"] = (rc, out.strip().splitlines()[-1:] if out.strip() else [])
    # the evidence file describes the last run on the CURRENT tree: keep it out of the way of the seeded run
    ev = os.path.join(VERIF, "evidence", pid + ".json")
    ev_saved = open(ev, "rb").read() if os.path.exists(ev) else None
    try:
        rc, out = sh(f"git -C {REPO} apply {d}/patch.diff")
        if rc != 0:
            res["apply"] = out
            print(json.dumps(res, indent=1))
            return
        rc, out = sh(f"cd {REPO} && /venv/bin/python -m pytest -q -p no:cacheprovider tests/unit 2>&1 | tail -1")
        res["unit"] = out.strip()
        rc, out = sh(f"timeout 120 /venv/bin/python {d}/demo.py {REPO}")
        res["demo_patched"] = (rc, out.strip().splitlines()[-1:] if out.strip() else [])
        rc, out = sh(f"cd {VERIF} && VERIF_NO_ESCALATE=1 timeout 1200 ./check {pid} --tier quick")
        res["check_rc"] = rc
        lines = out.splitlines()
        shown = []
        for i, l in enumerate(lines):
            if l.startswith(("VIOLATION", "OK ", "KNOWN")):
                shown.append(l)
                if l.startswith("VIOLATION") and i + 1 < len(lines):
                    shown.append(lines[i + 1])
        res["check_out"] = shown[:8]
    finally:
        sh(f"git -C {REPO} checkout -- .")
        if ev_saved is not None:
            open(ev, "wb").write(ev_saved)
    res["caught"] = res.get("check_rc") == 1
    res["valid_seed"] = (res["demo_clean"][0] == 0 and res.get("demo_patched", (0,))[0] != 0
                         and "67 passed" in res.get("unit", ""))
    print(json.dumps(res, indent=1))
    if keep and res["valid_seed"]:
        dst = os.path.join(VERIF, "seeded", keep)
        os.makedirs(dst, exist_ok=True)
        for f in ("patch.diff", "demo.py"):
            shutil.copy(os.path.join(d, f), os.path.join(dst, f))
        meta.update({"breaks": pid, "verified": {
            "demo_on_clean_tree": "PASS (exit 0)", "demo_with_patch": "FAIL (exit %d)" % res["demo_patched"][0],
            "unit_tests_with_patch": res["unit"],
            "ran": f"tools/seedtest.py: git apply; pytest tests/unit; demo.py; ./check {pid} --tier quick; git checkout"},
            "caught_by_check": res["caught"], "check_output": res["check_out"]})
        json.dump(meta, open(os.path.join(dst, "meta.json"), "w"), indent=1)


if __name__ == "__main__":
    main()
