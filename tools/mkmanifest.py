#!/venv/bin/python
"""Regenerate MANIFEST.json from the table below (run after adding a property's check)."""
import json
import os

VERIF = "/verif"
# which parts of the source each run translates into Gallina and proves equal to the hand-written model (DESIGN 9.1)
REGENERATED = {
    "C02": "gen/exprs.py: Hextile / ZRLE tile and sub-rectangle geometry",
    "C04": "gen/server.py decodekey: _decodeKey; gen/exprs.py: key passes",
    "C05": "gen/exprs.py: drag path, pointer operations",
    "C06": "gen/exprs.py: update-request fields, region box",
    "C07": "gen/expect.py: _expectCompare; gen/exprs.py: region box",
    "C08": "gen/exprs.py: pause / delay arithmetic; gen/commands.py: vocabulary",
    "C09": "gen/exprs.py: exit-status decisions, the --timeout timer",
    "C10": "gen/commands.py: vocabulary",
    "C12": "gen/screen.py: updateRectangle / updateDesktopSize",
    "C13": "gen/exprs.py: the advertised encodings list",
    "C14": "gen/exprs.py: _vnc_des key schedule",
    "C16": "gen/dispatch.py: recorder dispatch (run-the-model tie)",
    "C17": "gen/recorder.py: handle_keyEvent / handle_pointerEvent; gen/dispatch.py",
    "C18": "gen/dispatch.py; gen/commands.py",
    "C20": "gen/server.py: parse_server",
}
CLAIMED = {
    "C04": ("Coq theorems over all texts/chords/code points for the executable model of _decodeKey/keyPress/keyDown/keyUp "
            "(key table regenerated from the running code, KeyEvent format from the source), X11 binding checked over the whole table; "
            "model = implementation checked differentially on every run",
            "X11 keysym spec and RFC parser hand-written; str.isupper is an input; Twisted transport trusted",
            "Coq proof (induction, finite vm_compute over the generated key table) + regenerated tables/formats + differential correspondence via extraction"),
    "C05": ("Coq refinement proof: the code's (x, y, mask) arithmetic refines a position/set-of-held-buttons specification for every finite "
            "operation sequence; drag geometry (floor of the segment, bounding box, monotone, ends on target) proved with Z.div; "
            "model = implementation checked differentially under a virtual clock",
            "drag's 'finishes before any later operation starts' is carried by C08; Clock stands in for the reactor",
            "Coq proof (refinement by induction over operations, lia/nia) + generated PointerEvent format + differential correspondence"),
    "C19": ("Coq theorem: for every in-range operation sequence the concatenated writes parse, by an RFC 6143 §7.5 parser written "
            "independently, into exactly the operations' messages; serialisers are pack applied to the format strings found in the source; "
            "model = implementation checked differentially",
            "RFC parser spec hand-written; in-range arguments as the property states",
            "Coq proof (parser prefix-stability + induction over operations) + regenerated struct formats + differential correspondence"),
    "C20": ("Coq theorems for every host string, every digit string and arbitrary exists/IPv6 oracles: the three documented shapes, "
            "bracketed IPv6, family selection, and the enumerated rejections, over an executable model of parse_server "
            "(str.split/partition, int(), IPv4Address acceptance modelled); model = implementation checked on the enumerated grammar and random edits",
            "ASCII input; os.path.exists and IPv6Address are oracle inputs; CPython int()/ipaddress modelled and validated by correspondence",
            "Coq proof (split/join lemmas, digit-string induction) + differential correspondence via extraction"),
    "C01": ("Coq theorem, generic in the handler family and instantiated at the model of rfb.RFBClient: for every byte stream and every "
            "chunking, feeding the chunks equals feeding their concatenation (events, end state, residual buffer, handler count), by "
            "induction over the chunk list from a two-way splitting lemma for the expect loop; model = implementation compared on "
            "generated sessions under many chunkings incl. all 2^(k-1) chunkings of the last k bytes, and the implementation is compared "
            "with its own unchunked run; VMware workaround checked at message boundaries",
            "banner phase included (whole-client theorem over _handleInitial + expect loop) for streams the client does not reject; a "
            "rejected stream calls loseConnection on every delivery and Twisted then stops delivering (trusted); Twisted transport trusted; VMware mid-message match is a recorded known finding",
            "Coq proof (induction over chunk lists, generic expect-engine lemmas) + regenerated formats/expect graph + differential correspondence"),
    "C15": ("Coq theorem about the handler-family model of rfb.RFBClient: for every state, every well-formed pending expectation and "
            "every buffer of bytes 0..255 the expect loop terminates within 3*len+3 handler invocations (potential argument: zero-length "
            "steps lower a rank <= 2; 45-case analysis of the handlers incl. the ZRLE tile walk by induction); the real client runs every "
            "hostile stream under exactly that invocation limit in a guarded child process, and its invocation counts equal the model's",
            "loops inside handlers are structural recursions over the received block / inflated tile stream; zlib and pixel expansion of fills excluded as stated",
            "Coq proof (well-founded measure, case analysis of all handlers) + regenerated formats/expect graph + differential correspondence incl. handler-invocation counts"),
    "C03": ("Coq theorems about the handshake handlers of the RFB client model: version negotiation for all 10^6 banners >= 3.3 (by order "
            "analysis over the regenerated SUPPORTED_SERVER_VERSIONS, not enumeration), security-type selection = max(offered & supported), "
            "nothing reported as established while a run is still in the security phase (induction over the expect loop, all streams), the "
            "security phase is left only by the three success transitions which write ClientInit, it is never re-entered, failure results "
            "(incl. zero-length reasons) end in vncAuthFailed + close with no new expectation; real clients (base/library/CLI) judged "
            "against RFC 6143 on generated handshakes and compared with the model",
            "server versions below 3.3 excluded (the client raises); causal server after an unanswered challenge; after loseConnection Twisted stops reading (trusted)",
            "Coq proof (case analysis of handshake handlers, induction over the expect loop) + regenerated constants/formats + differential correspondence"),
    "C02": ("executable Coq model of every decoder (Raw, CopyRect, RRE, CoRRE, Hextile walk, ZRLE tile walk over the inflated stream, "
            "cursor, desktop-size, last-rect, QEMU key) run against the real client on streams produced by an RFC 6143 encoder written "
            "independently; the real client's screen must equal the encoder's framebuffer, its commits the updates sent, and a trailing "
            "Bell must be seen last (exact consumption); theorems: continuation-form round trips for Raw, CopyRect, RRE, CoRRE, Hextile, "
            "ZRLE (over the inflated tile stream, 3-byte CPIXELs, packed palettes with unpadded rows) and cursor rectangles, for whole "
            "updates mixing them (begin, every callback once in order, one commit, exact consumption, Bell once afterwards), and from "
            "callbacks to the C12 reference canvas; the padded-packed-rows ZRLE finding is a refutation theorem with a 3x2 witness; "
            "termination/landing of every decoder (C15), chunk invariance (C01)",
            "zlib is an oracle tape; Pillow modelled; two ZRLE defects are recorded known findings; hextile colours carried across raw tiles as the RFC says, strict reading only for the foreground after coloured subrectangles",
            "Coq proofs (per-encoding round trips by induction over tiles/subrectangles/runs) + differential correspondence against an independent RFC 6143 encoder"),
    "C12": ("Coq model of the slice of Pillow the client uses (new/paste with clipping/frombytes raw modes/1-bit mask) and of "
            "updateRectangle/updateDesktopSize/updateCursor; theorems: for every accepted history of updates, size changes and (nocursor) "
            "cursor updates from a fresh client the screen equals the reference canvas pixel for pixel and in size (induction over the "
            "history on a pointwise characterisation of paste), an update changes nothing outside its rectangle, a size change keeps what "
            "fits, nocursor makes cursor updates the identity; with a cursor shape drawn in (pseudocursor): the masked paste is characterised "
            "pixel by pixel for any offset and the composition theorem is lifted to histories with cursor updates against a functional "
            "reference canvas (latest colour, current cursor stamped over it after every update / cursor change; pointer fixed per run); the "
            "real client's screen is compared byte-exactly with the reference composition and with the model on random histories",
            "Pillow trusted and modelled; updates carry exactly w*h pixels",
            "Coq theorems over all histories (composition by induction) + differential correspondence of the model against the real client and the reference composition"),
    "C13": ("Coq theorems: after vncConnectionMade the (format, image mode) pair is an entry of the regenerated PF2IM, native format kept "
            "iff renderable else exactly one SetPixelFormat(RGB32, or BGR16 for 3.889); SetEncodings payload is preferred + pseudo-encodings "
            "exactly as the options say and all decodable; for every accepted format and EVERY pixel value the raw-mode decode yields the "
            "format's channel fields (bit-arithmetic lemmas, not enumeration); real client judged on format blocks x versions x options and "
            "on all 65536 BGR16 values",
            "preferred encoding is decodable; Pillow raw unpackers modelled and validated",
            "Coq proof (Z bit arithmetic, finite table facts by computation) + regenerated PF2IM/encodings + differential correspondence"),
    "C06": ("Coq theorems: a capture requests the whole desktop as last announced (ServerInit or the latest DesktopSize rectangle, which "
            "updates the geometry); model of commit/waiter run against the real client on sessions interleaving captures with unsolicited "
            "updates, desktop-size changes and chunked updates; judged: request geometry, exactly one image per capture, saved right after "
            "the first commit following the request, PNG pixels == reference canvas / its crop; chunk invariance by C01; "
            "trace theorem: for every run on any bytes an image is saved only immediately after a commit, at most once per waiting capture",
            "sequential / chained captures; Pillow PNG codec trusted", "Coq proof (handler case analysis + induction over the expect loop) + differential correspondence with an independent reference canvas"),
    "C10": ("Coq theorems about an executable model of build_command_list + shlex: every well-formed command sequence (any alias, any "
            "arguments) compiles to exactly its operations (induction over the sequence), a script file name is equivalent to its "
            "tokenised contents, a word that is neither command nor file is rejected whatever follows, unsupported capture extensions are "
            "rejected; real build_command_list compared on generated scripts/files/near-miss words and build_tool checked to exit before connecting",
            "ASCII; float() validity and int() modelled; delay pauses compared exactly by the harness",
            "Coq proof (induction over command lists, controlled evaluation of the word tests) + differential correspondence"),
    "C17": ("Coq model of loggingproxy.RFBServer (handshake skipping, framing table, per-message handlers incl. the awaited "
            "SetEncodings list / cut text / QEMU key) and of the recorder formatting, time in ticks of 1e-4 s; theorems: split and "
            "chunk-list invariance of the parser for every state and byte stream, one entry per key/pointer event in order under "
            "every chunking, entry shapes; the real VNCLoggingServerProxy is run under a virtual clock on generated viewer sessions "
            "(3.3/3.7/3.8, None / VNC auth / --password-required, all seven message kinds) delivered message-wise, byte-wise, whole, "
            "with a cut inside every message and at random cuts, and judged against the events the viewer sent: one entry per event, "
            "in order, written during the chunk that completes the message, pause = time since the previous recorded event",
            "keysyms without a script representation (CR, surrogates, > 0x10FFFF) are the open C16/C18 findings; timestamps are virtual",
            "Coq proof over the parser/recorder model + regenerated TYPE_LEN/REVERSE_MAP/formats + differential correspondence"),
    "C16": ("Coq model of the viewer-side parser (Model/Recorder.v) and of the logging client (= library client model started at "
            "ServerInit); theorems about the parser: it never spins on any byte string (potential argument), handlers are local, a raise "
            "is chunk-independent and time-independent, a session of the seven message kinds with any field values never raises under any chunking "
            "and timing so that exactly the viewer's bytes are forwarded once and in order (relay theorem), and the logging client never "
            "raises on server sessions of Raw/CopyRect/RRE/CoRRE/Hextile/cursor updates, bells and cut texts; the real proxy pair is driven on in-memory "
            "transports with causal interleavings of both directions cut at random: after every chunk each leg must have received "
            "exactly the bytes sent so far and nothing may raise; several connections on one factory (shared stream, per-connection "
            "files); the parser and the logging client are compared with the Coq models",
            "portforward back-pressure not exercised; open findings: keysym > 0x10FFFF, viewer-selected pixel format, concurrent "
            "--forever connections, and the two ZRLE decoder findings of C02",
            "Coq proof over the parser model + differential correspondence of both legs"),
    "C18": ("Coq model of the whole loop: recorder formatting (shlex.quote included) -> shlex posix tokeniser -> build_command_list "
            "-> _decodeKey; theorems (Properties/C18.v): every name the recorder can write for a keysym decodes back to that keysym "
            "(reverse map checked over the whole regenerated table, raw characters by a no-single-character-name lemma), shlex reads back "
            "shlex.quote(s) for every text, float() accepts every %.4f, a session is tokenised into exactly its commands, and the full "
            "record -> shlex -> compile -> decode loop returns the original events for every session; the "
            "real vnclog recorder writes a text-mode script file for EVERY representable keysym (quick: 0..0xFFFF, thorough: "
            "0..0x10FFFF) and random key/pointer sessions, the real build_command_list compiles the file and a real VNCDoCLIClient "
            "replays it under a virtual clock with several warp factors; key events, pointer positions (up to stuttering), button "
            "presses and replay times >= recorded pauses / warp are judged; recorded text and the model's round trip compared",
            "CR, surrogates and keysyms > 0x10FFFF are the open finding c18-file-newlines; CPython text-mode I/O trusted",
            "Coq proof over the recorder/shlex/compiler/key-decoding models + exhaustive keysym sweep + differential correspondence"),
    "C14": ("Coq theorems: the VNC key is the first eight password characters, NUL padded, bit-reversed per byte (all ASCII passwords, "
            "any length; the code's shift/mask sum equals list-reversal of the bits on all 256 bytes); the client model writes "
            "DES-ECB(key)(challenge); FIPS 46-3 DES written in Gallina is proved invertible for every key and block (Feistel lemma, "
            "FP o IP = id) so a conforming server recovers its challenge; ARD: reply = 128 bytes + exactly keyLen key bytes, and a "
            "server with the matching private exponent recovers the NUL-padded credentials for every generator/modulus/secret/key "
            "length (modular exponentiation by squaring proved equal to b^e mod m; MD5/AES abstract); real client compared with the "
            "spec DES, an independent server side, and the model",
            "Cryptodome DES validated against the Gallina DES on known-answer vectors and random pairs on every run; MD5/AES "
            "parameters; os.urandom on a tape; non-ASCII VNC passwords raise (outside the statement)",
            "Coq proof (finite computation over 256 bytes, Feistel induction, Z.pow/mod algebra) + differential correspondence"),
    "C07": ("Coq model of _expectFramebuffer/_expectCompare: crop (black outside), 768-bin histogram, exact sum of squares, and the "
            "binary64 division / square root / <= through Coq's primitive floats; theorems: match iff (screen exists, 768 bins, RMS "
            "<= tolerance on the crop at the box), pixel-identical regions match at every tolerance >= 0, a match at tolerance 0 "
            "means equal histograms (given one IEEE fact as hypothesis), the region box, and - for every sequence of committed "
            "screens of any length, by induction - exactly one request per non-matching commit, completion at the first matching "
            "commit, nothing afterwards; the real client is judged by exact rational arithmetic and compared bit-for-bit with the "
            "float model (vm_compute) at tolerances equal to, one ulp above and one ulp below the RMS; polling histories with raw, "
            "cursor-only, desktop-size-only and last-rect updates",
            "RGB awaited images; kernel float primitives listed by Print Assumptions (not axioms); open finding c07-empty-update",
            "Coq proof (induction over update sequences, histogram algebra) + PrimFloat model evaluated by vm_compute + differential correspondence"),
    "C08": ("Coq interpreter of the compiled script as a callback chain over rational time (synchronous operations, pause, drag with "
            "its 0.2 s steps, capture completing at the next commit, expect polling until a matching commit) and theorems for every "
            "script, client state and time-ordered commit schedule: each operation's bytes lie in time order between its start and "
            "its completion and the chain resumes at the completion (hence no byte of a later command before the earlier one "
            "finished), a pause lasts exactly the requested time, the connection is closed exactly once and last iff every command "
            "finished; real build_command_list + VNCDoCLIClient run through the real handshake under task.Clock with a scheduled "
            "server; judged by an independent reference schedule (exact times) and compared with the interpreter's timed trace",
            "Twisted Deferred/inlineCallbacks/callLater semantics modelled (not verified); ties between timers and commits excluded; "
            "a script file adds one delay pause at its start (at least the delay still elapses)",
            "Coq proof (induction over the script, sortedness invariants over Q) + differential correspondence of timed traces"),
    "C09": ("Coq model of the exit-status machine (VNCDoCLIFactory.clientConnectionLost/Failed/error/done, build_tool's closing "
            "callback, the --timeout timer, reactor.stop) and theorems over ALL event sequences: status 0 only if the closing "
            "callback ran (every command done, vncdo closed) and the connection then ended cleanly; any fault before completion and "
            "the timeout give non-zero; the timeout schedules the stop; PARTIAL by nature for the wall-clock half: real vncdo "
            "processes run against scripted loopback servers with faults (refuse, RFB refusal, auth failure, unknown security type, "
            "close, reset, unknown message/encoding, silence) at every point of the conversation for 3.3/3.7/3.8 and five scripts, "
            "incl. 12 MiB of output against a non-reading / resetting server; exit status, termination and wall time <= T + 1 s + twice the measured cost of a vncdo process judged; "
            "the machine is compared on each scenario's event sequence",
            "which reactor events a server behaviour produces, the kernel's socket teardown and the wall clock are sampled, not "
            "proved; open finding c09-abort-then-buffered-update",
            "Coq proof (invariant over event sequences) + fault enumeration with real processes (differential correspondence)"),
    "C11": ("Coq transition system of ThreadedVNCClientProxy (application thread, callFromThread FIFO, the factory Deferred with its "
            "pending callbacks and the paused chain, the result queue, connection up/failed) and theorems over EVERY schedule of its "
            "events: calls return in the order made, call #i gets exactly operation #i's value or error (or the connection failure), a "
            "failing call changes nothing for later calls, an operation runs only while its own caller is blocked and the queue never "
            "holds more than that caller's result, an unconnectable client answers instead of blocking; PARTIAL by nature for real "
            "threads: real api.connect in child processes (one reactor lifetime each) with a probe client class, one or two clients "
            "on separate application threads, prompt / slow / refusing / password-demanding loopback servers; each call's outcome, "
            "completion time and the reactor-side start/finish log are judged, the model's delivered outcomes compared",
            "CPython thread scheduling and Twisted's callFromThread are sampled; one application thread per client; timed-out calls excluded",
            "Coq proof (invariant over all interleavings of the model) + real-thread campaign (differential correspondence)"),
}
NOT_YET = "check not built yet in this session (planned Coq model in DESIGN.md §3); not claimed"


def main():
    props = [json.loads(l) for l in open(os.path.join(VERIF, "properties.jsonl"))]
    m = {
        "version": 1,
        "setup_cmd": "./setup.sh",
        "hooks": {
            "guard": "VNCDOTOOL_VERIF",
            "enable": "no source hooks: the harness subclasses the real classes and replaces module globals "
                      "(client.reactor, loggingproxy.time, rfb.os.urandom) from its own process",
            "baseline_off_cmd": "cd /repo && /venv/bin/python -m pytest -ra -q -p no:cacheprovider --timeout=900 "
                                "--continue-on-collection-errors",
            "source_commits": [],
            "add_only": True,
        },
        "engines": [{
            "name": "coq-model", "path": "coq/", "serves_properties": sorted(CLAIMED),
            "kind_free_text": "Coq 8.16.1 development (library VD): hand-written executable Gallina model + tables/formats "
                              "regenerated from /repo on every run + theorems; extracted to OCaml (ExtrOcamlBasic) for the "
                              "differential correspondence harness in harness/"}],
        "checks": [], "not_applicable": [],
        "notes": "Every check: regenerate coq/Gen from /repo, full make, Print Assumptions scan, rebuild extracted driver, "
                 "campaign (implementation vs model, implementation vs spec oracle), evidence. See DESIGN.md.",
    }
    for p in props:
        pid = p["id"]
        if pid in CLAIMED:
            text, note, tech = CLAIMED[pid]
            if pid in REGENERATED:
                tech += " + translator-regenerated Gallina terms proved equal to the model (" + REGENERATED[pid] + ")"
            m["checks"].append({
                "property_id": pid,
                "quick_cmd": f"./check {pid} --tier quick",
                "thorough_cmd": f"./check {pid} --tier thorough",
                "evidence_file": f"/verif/evidence/{pid}.json",
                "replay_cmd_template": f"./check {pid} --replay {{path}}",
                "engine": "coq-model",
                "level_claimed": {"category": "proof", "text": text, "design_ref": f"DESIGN.md §3 {pid}"},
                "level_note": note,
                "technique": tech,
            })
        else:
            m["not_applicable"].append({"property_id": pid, "reason": NOT_YET})
    json.dump(m, open(os.path.join(VERIF, "MANIFEST.json"), "w"), indent=1)
    print("claimed:", sorted(CLAIMED))


if __name__ == "__main__":
    main()
